package props

import (
	"fmt"
	"go/token"
	"strings"

	"golang.org/x/tools/go/ssa"

	. "verifcheck/an"
)

func init() { Registry["C08"] = c08 }

func c08(r *Report) {
	defer c08Seed9(r)
	defer c08Seed8(r)
	defer c08Seed7(r)
	defer c08Seed5(r)
	defer c08Seed6(r)
	p := r.P
	defer c08Audit4(r)
	const dag = "network/dag"
	r.Explanation = "Static decision of the structural conditions that keep DAG digests, head and counters tied to the stored set: (1) same transaction: in the admission write closure every successful path after graph.add runs updateState (in tail position), updateState succeeds only through both tree writes, and (*dag).add succeeds only through the highest-clock, head and counter updates — all on the closure's write transaction; (2) rollback: the admission Write carries an OnRollback callback that reloads the state, and loadState overwrites (Store) the in-memory highest clock with the stored value and re-reads both trees; start-up reloads too; (3) single writer: the in-memory trees are mutated only by treeStore.write/read and the repair procedure, the tree buckets are written only by writeWithoutLock; (4) repair: the page is recomputed from the stored transactions inside the same write transaction that replaces the leaf, the leaf is replaced only when the recomputed digest differs, and the replaced page is the page that was recomputed."
	r.NotDecided = []string{"equality of XOR/IBLT values with a fold over the stored set (numerical)", "page arithmetic", "storage engine atomicity"}
	r.Assumptions = []string{"go-stoabs invokes OnRollback when the write transaction is rolled back, and WithWriteLock serialises writers"}

	add := p.Func(dag, "state", "Add")
	wcl := one(anonCalling(add, Fn(dag, "dag", "add")))
	// (1)
	r.MustReach(MustReach{ID: "C08.sametx.digests-updated-with-graph", Fn: wcl, SuccessOnly: true, Cond: ErrCheck(Fn(dag, "dag", "add")), Target: Fn(dag, "state", "updateState")})
	r.Gate(Gate{ID: "C08.sametx.update-failure-aborts", Fn: wcl, Effect: SuccessReturn(), Check: ErrCheck(Fn(dag, "state", "updateState")), Alt: []Check{CallCheck(Fn(dag, "dag", "isPresent"), -1, IsTrue)}})
	us := p.Func(dag, "state", "updateState")
	r.Gate(Gate{ID: "C08.update.iblt", Fn: us, Effect: SuccessReturn(), Check: Check{Desc: "ibltTree.write err == nil", Call: ptr(Fn(dag, "treeStore", "write")), Result: -1, Pass: ErrNil, Filter: func(ci ssa.CallInstruction) bool {
		return strings.Contains(AccessPath(ci.Common().Args[0], 0), "ibltTree")
	}}})
	r.Gate(Gate{ID: "C08.update.xor", Fn: us, Effect: SuccessReturn(), Check: Check{Desc: "xorTree.write err == nil", Call: ptr(Fn(dag, "treeStore", "write")), Result: -1, Pass: ErrNil, Filter: func(ci ssa.CallInstruction) bool {
		return strings.Contains(AccessPath(ci.Common().Args[0], 0), "xorTree")
	}}})
	c08SameTxHandle(r, wcl, us)
	da := p.Func(dag, "dag", "add")
	r.Gate(Gate{ID: "C08.graph.highest-clock", Fn: da, Effect: SuccessReturn(), Check: ErrCheck(Fn(dag, "dag", "setHighestClockValue"))})
	r.ArgIs("C08.graph.counter-is-stored-plus-added", da, Fn(dag, "dag", "setNumberOfTransactions"), 1, SumV(CallV(Fn(dag, "dag", "getNumberOfTransactions"), -1), LenV(ParamV("transactions"))), 1)
	r.Gate(Gate{ID: "C08.graph.counter", Fn: da, Effect: SuccessReturn(), Check: ErrCheck(Fn(dag, "dag", "setNumberOfTransactions"))})
	// setHead, or — when it is inlined into add (neutral/C08-n2) — the Put of the head-reference key itself
	headPut := p.FnOrImpl(stoabsPkg, "Writer", "Put")
	headKey, _ := p.ConstValue(dag, "headRefKey")
	headWrite := AnyOf(Fn(dag, "dag", "setHead"), Callee{Desc: "Writer.Put(headRefKey, …)", M: func(cc *ssa.CallCommon) bool {
		if !headPut.M(cc) {
			return false
		}
		// stoabs.BytesKey(headRefKey) is a conversion of the constant (through MakeInterface to stoabs.Key)
		a := CallArg(cc, 0)
		for i := 0; i < 4 && a != nil; i++ {
			if sv, isS := ConstString(StripConv(a)); isS {
				return headKey != "" && sv == strings.Trim(headKey, "\"")
			}
			switch x := StripConv(a).(type) {
			case *ssa.MakeInterface:
				a = x.X
			case *ssa.Convert:
				a = x.X
			case *ssa.ChangeType:
				a = x.X
			default:
				a = nil
			}
		}
		return false
	}})
	r.Gate(Gate{ID: "C08.graph.head", Fn: da, Effect: SuccessReturn(), Check: ErrCheck(headWrite), Alt: []Check{CallCheck(Fn("crypto/hash", "SHA256Hash", "Equals"), -1, IsTrue)}})
	r.Gate(Gate{ID: "C08.graph.each-stored", Fn: da, Effect: CallEffect(Fn(dag, "dag", "setNumberOfTransactions")), ForEach: true, Check: ErrCheck(Fn(dag, "dag", "addSingle")),
		Skip: []Check{CmpCheck("transaction == nil", token.EQL, AnyV(), NilV(), true)}})
	// (2)
	c08Rollback(r, add)
	c08LoadState(r)
	c08NoSharedData(r)
	c08DigestReadFromTree(r)
	// reloading "no leaves" yields an EMPTY tree (fix: Load returned early and left the previous content — the rolled-back
	// first transaction of a DAG stayed in the digests)
	ld := p.Func(dag+"/tree", "tree", "Load")
	r.MustReach(MustReach{ID: "C08.rollback.empty-reload-resets-the-tree", Fn: ld, Cond: CmpCheck("len(leaves) == 0", token.EQL, LenV(ParamV("leaves")), IntV(0), true),
		Target: Fn(dag+"/tree", "tree", "resetDefaults")})
	c08AddCriticalSection(r, add)
	c08ClockMonotone(r)
	r.Own(OwnSpec{ID: "C08.own.loadState", Op: "call loadState", Sites: p.CallSites(Fn(dag, "state", "loadState"), true), Min: 2, Owners: map[string]string{
		"(*network/dag.state).Add":       "OnRollback callback",
		"(*network/dag.state).Start":     "start-up",
		"(*network/dag.state).Configure": "start-up",
		"(*network/dag.state).Migrate":   "start-up",
	}})
	// (3)
	mut := AnyOf(Fn(dag+"/tree", "Tree", "Insert"), Fn(dag+"/tree", "Tree", "Replace"), Fn(dag+"/tree", "Tree", "Load"), Fn(dag+"/tree", "Tree", "Delete"), Fn(dag+"/tree", "Tree", "DropLeaves"))
	var sites []Site
	for _, s := range p.CallSites(mut, true) {
		if strings.HasPrefix(funcPkg(s.Fn), ModPath+"/network/dag") && !strings.HasSuffix(funcPkg(s.Fn), "/tree") {
			sites = append(sites, s)
		}
	}
	r.Own(OwnSpec{ID: "C08.own.tree-mutators", Op: "mutate a state tree (Insert/Replace/Load/Delete/DropLeaves)", Sites: sites, Min: 3, Owners: map[string]string{
		"(*network/dag.treeStore).write":         "under treeStore.mutex, inside the admission transaction",
		"(*network/dag.treeStore).read":          "under treeStore.mutex, (re)load",
		"(*network/dag.xorTreeRepair).checkPage": "repair: local scratch tree + Replace of the diverged leaf inside the write transaction",
	}})
	for _, bucket := range []string{"xorShelf", "ibltShelf"} {
		_ = bucket
	}
	c08BucketWriters(r)
	c08TreeMutexHeld(r)
	// (4)
	c08Repair(r)
}

// c08SameTxHandle: updateState/graph.add/saveEvent in the closure receive the closure's tx parameter; updateState hands its tx to both tree writes.
func c08SameTxHandle(r *Report, wcl, us *ssa.Function) {
	rule := "ARG: graph, digests and events are written on the same write-transaction handle"
	key := "C08.sametx.handle"
	if wcl == nil || us == nil {
		r.Lost(key, rule, "closure / updateState not found")
		return
	}
	n := 0
	check := func(fn *ssa.Function, c Callee) string {
		for _, ci := range Calls(fn, c) {
			n++
			ok := false
			for _, a := range ci.Common().Args {
				if prm, isP := StripConv(a).(*ssa.Parameter); isP && prm.Parent() == fn && strings.Contains(prm.Type().String(), "WriteTx") {
					ok = true
				}
			}
			if !ok {
				return "call " + c.Desc + " at " + r.P.Pos(ci.Pos()) + " does not use the function's WriteTx parameter"
			}
		}
		return ""
	}
	for _, c := range []Callee{Fn("network/dag", "dag", "add"), Fn("network/dag", "state", "updateState"), Fn("network/dag", "state", "saveEvent"), Fn("network/dag", "PayloadStore", "writePayload")} {
		if msg := check(wcl, c); msg != "" {
			r.Bad(key, rule, r.P.Pos(wcl.Pos()), msg)
			return
		}
	}
	if msg := check(us, Fn("network/dag", "treeStore", "write")); msg != "" {
		r.Bad(key, rule, r.P.Pos(us.Pos()), msg)
		return
	}
	r.Sites += n
	r.OK(key, rule, r.P.Pos(wcl.Pos()), fmt.Sprintf("%d calls share the handle", n), true)
}

func c08Rollback(r *Report, add *ssa.Function) {
	p := r.P
	rule := "ORDER: the admission Write carries stoabs.OnRollback(f) where f reloads the in-memory state"
	key := "C08.rollback.reload-registered"
	if add == nil {
		r.Lost(key, rule, "state.Add not found")
		return
	}
	writes := Calls(add, Fn(stoabsPkg, "KVStore", "Write"))
	if len(writes) != 1 {
		r.Lost(key, rule, fmt.Sprintf("%d Write calls", len(writes)))
		return
	}
	ok := false
	for _, el := range VariadicElems(writes[0]) {
		c, isC := StripConv(el).(*ssa.Call)
		if !isC || !Fn(stoabsPkg, "", "OnRollback").M(c.Common()) {
			continue
		}
		if cl := closureArgOf(c, 0); cl != nil && len(CallsDeep(cl, Fn("network/dag", "state", "loadState"))) > 0 {
			ok = true
		}
	}
	r.Sites += 2
	if !ok {
		r.Bad(key, rule, p.Pos(writes[0].Pos()), "no OnRollback option whose callback calls loadState: after a rolled-back write the in-memory trees and clock keep the aborted transaction")
		return
	}
	r.OK(key, rule, p.Pos(writes[0].Pos()), "OnRollback → loadState", true)
	// a write that is rolled back BECAUSE the caller's context was cancelled must still reload: the reload does not run on
	// the caller's context (fix: the reload failed with "context canceled" and the in-memory digests kept the aborted tx)
	ctxPkg := "std:context"
	r.ArgIs("C08.rollback.reload-survives-cancellation", add, Fn("network/dag", "state", "loadState"), 0,
		OriginV(CallV(AnyOf(Fn(ctxPkg, "", "WithoutCancel"), Fn(ctxPkg, "", "Background"), Fn(ctxPkg, "", "TODO")), -1)), 1)
}

func c08LoadState(r *Report) {
	p := r.P
	rule := "ARG: loadState overwrites the in-memory highest clock with the stored value (atomic Store of getHighestClockValue) and re-reads both trees"
	key := "C08.rollback.loadstate-overwrites"
	ls := p.Func("network/dag", "state", "loadState")
	if ls == nil {
		r.Lost(key, rule, "loadState not found")
		return
	}
	var stores, reads int
	var problems []string
	for _, f := range WithAnons(ls) {
		for _, ci := range Calls(f, Fn("std:sync/atomic", "Uint32", "Store")) {
			stores++
			if !strings.Contains(AccessPath(ci.Common().Args[0], 0), "lamportClockHigh") || !strings.Contains(AccessPath(ci.Common().Args[1], 0), "getHighestClockValue(") {
				problems = append(problems, "Store at "+p.Pos(ci.Pos())+" is not lamportClockHigh.Store(getHighestClockValue(tx))")
			}
		}
		for _, ci := range Calls(f, Fn("network/dag", "treeStore", "read")) {
			reads++
			_ = ci
		}
		// a raise-only update (CompareAndSwap loop / conditional) instead of Store would keep a rolled-back clock
		if len(Calls(f, Fn("std:sync/atomic", "Uint32", "CompareAndSwap"))) > 0 {
			problems = append(problems, "loadState uses CompareAndSwap (raise-only) on the clock")
		}
	}
	// the Store is unconditional: it is in the entry block of the read closure
	for _, f := range WithAnons(ls) {
		for _, ci := range Calls(f, Fn("std:sync/atomic", "Uint32", "Store")) {
			if ci.Block() != f.Blocks[0] {
				problems = append(problems, "the Store at "+p.Pos(ci.Pos())+" is conditional (a rolled-back, higher in-memory clock would be kept)")
			}
		}
	}
	r.Sites += stores + reads
	if stores != 1 {
		problems = append(problems, fmt.Sprintf("%d atomic Store calls on the clock (expected 1)", stores))
	}
	if reads != 2 {
		problems = append(problems, fmt.Sprintf("%d tree reads (expected xor + iblt)", reads))
	}
	if len(problems) > 0 {
		r.Bad(key, rule, p.Pos(ls.Pos()), strings.Join(problems, "; "))
		return
	}
	r.OK(key, rule, p.Pos(ls.Pos()), "Store(getHighestClockValue) + 2 tree reads", true)
}

func c08BucketWriters(r *Report) {
	p := r.P
	var sites []Site
	for _, s := range p.CallSites(Fn(stoabsPkg, "WriteTx", "GetShelfWriter"), false) {
		ci := s.Instr.(ssa.CallInstruction)
		if strings.Contains(AccessPath(CallArg(ci.Common(), 0), 0), "bucketName") {
			sites = append(sites, s)
		}
	}
	r.Own(OwnSpec{ID: "C08.own.tree-bucket-writers", Op: "GetShelfWriter(treeStore.bucketName)", Sites: sites, Min: 1, Owners: map[string]string{
		"(*network/dag.treeStore).writeWithoutLock": "single writer of the digest buckets",
	}})
	r.Own(OwnSpec{ID: "C08.own.writeWithoutLock", Op: "call writeWithoutLock", Sites: p.CallSites(Fn("network/dag", "treeStore", "writeWithoutLock"), true), Min: 2, Owners: map[string]string{
		"(*network/dag.treeStore).write":         "holds treeStore.mutex",
		"(*network/dag.xorTreeRepair).checkPage": "inside the write transaction under the global write lock",
	}})
}

// c08TreeMutexHeld: every treeStore method that touches store.tree takes store.mutex first (except the listed caller-locks function).
func c08TreeMutexHeld(r *Report) {
	p := r.P
	rule := "ORDER: treeStore methods touch the tree only with treeStore.mutex held (Lock dominates, Unlock deferred)"
	n := 0
	for _, fn := range p.Funcs {
		if fn.Parent() != nil || fn.Signature.Recv() == nil || funcPkg(fn) != ModPath+"/network/dag" {
			continue
		}
		if nm := NamedOf(fn.Signature.Recv().Type()); nm == nil || nm.Obj().Name() != "treeStore" {
			continue
		}
		var first ssa.Instruction
		for _, b := range fn.Blocks {
			for _, in := range b.Instrs {
				if fa, ok := in.(*ssa.FieldAddr); ok && FieldPathEnds(&ssa.UnOp{Op: token.MUL, X: fa}, "tree") && first == nil {
					first = in
				}
			}
		}
		if first == nil {
			continue
		}
		n++
		key := "C08.mutex @ " + p.FuncName(fn)
		if fn.Name() == "writeWithoutLock" {
			r.OK(key, rule, p.Pos(fn.Pos()), "documented caller-locks function (owners checked in C08.own.writeWithoutLock)", false)
			continue
		}
		locked := false
		for _, b := range fn.Blocks {
			for _, in := range b.Instrs {
				if ci, ok := in.(*ssa.Call); ok {
					if f := ci.Common().StaticCallee(); f != nil && f.Name() == "Lock" && strings.Contains(AccessPath(ci.Common().Args[0], 0), "mutex") && InstrDominates(in, first) {
						locked = true
					}
				}
			}
		}
		if locked {
			r.OK(key, rule, p.Pos(fn.Pos()), "mutex.Lock dominates the first tree access", true)
		} else {
			r.Bad(key, rule, p.Pos(first.Pos()), "the tree is accessed without holding treeStore.mutex")
		}
	}
	r.Sites += n
	if n < 4 {
		r.Lost("C08.mutex", rule, fmt.Sprintf("%d treeStore methods touching the tree", n))
	}
}

func c08Repair(r *Report) {
	p := r.P
	rule := "ORDER: the repair recomputes the page from the stored transactions inside the same write transaction that replaces the leaf, replaces only on a detected difference, and replaces the page it recomputed"
	key := "C08.repair"
	cp := p.Func("network/dag", "xorTreeRepair", "checkPage")
	if cp == nil {
		r.Lost(key, rule, "checkPage not found")
		return
	}
	wr := Calls(cp, Fn(stoabsPkg, "KVStore", "Write"))
	if len(wr) != 1 {
		r.Lost(key, rule, fmt.Sprintf("%d Write calls", len(wr)))
		return
	}
	cl := closureArgOf(wr[0], 1)
	if cl == nil {
		r.Lost(key, rule, "write closure not found")
		return
	}
	find := Calls(cl, Fn("network/dag", "dag", "findBetweenLC"))
	repl := Calls(cl, Fn("network/dag/tree", "Tree", "Replace"))
	persist := Calls(cl, Fn("network/dag", "treeStore", "writeWithoutLock"))
	outside := CallsDeep(cp, Fn("network/dag", "dag", "findBetweenLC"))
	r.Sites += len(find) + len(repl) + len(persist)
	var problems []string
	if len(find) != 1 || len(outside) != 1 {
		problems = append(problems, fmt.Sprintf("the page is recomputed %d time(s) inside and %d time(s) overall in checkPage: it must be computed exactly once, inside the write transaction", len(find), len(outside)))
	} else {
		if prm, ok := StripConv(CallArg(find[0].Common(), 0)).(*ssa.Parameter); !ok || prm.Parent() != cl {
			problems = append(problems, "findBetweenLC does not read through the write transaction handle")
		}
	}
	if len(repl) != 1 || len(persist) != 1 {
		problems = append(problems, fmt.Sprintf("Replace=%d writeWithoutLock=%d inside the write closure", len(repl), len(persist)))
	}
	if len(problems) == 0 {
		if !InstrDominates(find[0], repl[0]) || !InstrDominates(repl[0], persist[0]) {
			problems = append(problems, "order recompute → Replace → persist does not hold")
		}
		// same page: Replace's first argument and findBetweenLC's start are the same captured value
		a, b := AccessPath(CallArg(repl[0].Common(), 0), 0), AccessPath(CallArg(find[0].Common(), 1), 0)
		if a != b {
			problems = append(problems, "Replace targets "+a+" but the recomputed range starts at "+b)
		}
		if !strings.Contains(AccessPath(persist[0].Common().Args[len(persist[0].Common().Args)-1], 0), "txn") {
			// handled by handle check below
		}
		if prm, ok := StripConv(CallArg(persist[0].Common(), 0)).(*ssa.Parameter); !ok || prm.Parent() != cl {
			problems = append(problems, "the repaired leaf is not persisted on the same write transaction")
		}
	}
	if len(problems) > 0 {
		r.Bad(key, rule, p.Pos(cp.Pos()), strings.Join(problems, "; "))
		return
	}
	r.OK(key, rule, p.Pos(cl.Pos()), "recompute, compare, Replace and persist in one write transaction on the same page", true)
	r.Gate(Gate{ID: "C08.repair.only-on-difference", Fn: cl, Effect: CallEffect(Fn("network/dag/tree", "Tree", "Replace")), Check: CallCheck(Fn("network/dag/tree", "Data", "Empty"), -1, IsFalse)})
	// Observation (not asserted): checkPage's Write carries no stoabs.WithWriteLock() while state.Add's does. On bbolt write
	// transactions are exclusive anyway; on Redis the repair could interleave with an admission. Unconfirmed, see DESIGN.md.
	r.Extra["observation_repair_without_writelock"] = !callHasOption(cp, Fn(stoabsPkg, "KVStore", "Write"), Fn(stoabsPkg, "", "WithWriteLock"))
}

func callHasOption(fn *ssa.Function, call, opt Callee) bool {
	for _, ci := range CallsDeep(fn, call) {
		for _, el := range VariadicElems(ci) {
			if c, ok := StripConv(el).(*ssa.Call); ok && opt.M(c.Common()) {
				return true
			}
		}
	}
	return false
}

// c08NoSharedData: every node of the digest tree owns its data object. A parent's digest is built by mutating a copy of
// the left child's (Clone) — if two nodes shared one object, adding to the parent would corrupt the child (and what is
// persisted for that page).
func c08NoSharedData(r *Report) {
	p := r.P
	rule := "ALIAS: a tree node's data is a fresh object (Clone()/New() result or the caller-supplied value), never another node's data object"
	key := "C08.tree.no-shared-data"
	sites := p.FieldStores("network/dag/tree", "node", "data")
	n := 0
	for _, s := range sites {
		if p.FileClass(p.FuncPos(s.Fn)) != "prod" {
			continue
		}
		n++
		v := StripConv(s.Instr.(*ssa.Store).Val)
		switch x := v.(type) {
		case *ssa.Parameter:
			continue
		case *ssa.Call:
			if x.Common().IsInvoke() && (x.Common().Method.Name() == "Clone" || x.Common().Method.Name() == "New") {
				continue
			}
		case *ssa.UnOp:
			if _, isParamCell := x.X.(*ssa.Alloc); isParamCell && x.Op == token.MUL {
				continue // spilled parameter
			}
		}
		if FieldV("node", "data").M(v) {
			r.Bad(key, rule, p.Pos(s.Pos), p.FuncName(s.Fn)+" stores another node's data object ("+AccessPath(v, 0)+") into a node: two nodes would share one digest")
			return
		}
		r.Undecided(key, rule, p.Pos(s.Pos), p.FuncName(s.Fn)+" stores "+AccessPath(v, 0)+" into node.data; origin not recognised")
		return
	}
	r.Sites += n
	if n < 4 {
		r.Lost(key, rule, fmt.Sprintf("%d stores to node.data found", n))
		return
	}
	r.OK(key, rule, "", fmt.Sprintf("%d stores: Clone()/New() results or parameters", n), true)
}

// c08ClockMonotone: the in-memory highest Lamport clock equals the maximum over the stored set: admission only ever
// raises it (compare-and-swap behind `v < clock`); the only absolute write is the reload from storage.
func c08ClockMonotone(r *Report) { clockMonotoneAs(r, "C08.clock") }

// clockMonotoneAs: the same obligations under another property's id prefix (C07: the clock a node advertises decides which
// page a far-behind peer asks for; a clock that can go DOWN makes the peer ask for the same undecodable range for ever).
func clockMonotoneAs(r *Report, pre string) {
	p := r.P
	isHigh := func(cc *ssa.CallCommon) bool {
		return len(cc.Args) > 0 && FieldV("state", "lamportClockHigh").M(&ssa.UnOp{Op: token.MUL, X: cc.Args[0]}) || len(cc.Args) > 0 && FieldPathEnds(&ssa.UnOp{Op: token.MUL, X: cc.Args[0]}, "lamportClockHigh")
	}
	store := Callee{Desc: "lamportClockHigh.Store", M: func(cc *ssa.CallCommon) bool {
		f := cc.StaticCallee()
		return f != nil && f.Name() == "Store" && f.Pkg != nil && f.Pkg.Pkg.Path() == "sync/atomic" && isHigh(cc)
	}}
	cas := Callee{Desc: "lamportClockHigh.CompareAndSwap", M: func(cc *ssa.CallCommon) bool {
		f := cc.StaticCallee()
		return f != nil && f.Name() == "CompareAndSwap" && f.Pkg != nil && f.Pkg.Pkg.Path() == "sync/atomic" && isHigh(cc)
	}}
	r.Own(OwnSpec{ID: pre+".absolute-write-only-on-reload", Op: "overwrite the highest Lamport clock (Store)", Sites: p.CallSites(store, true), Min: 1,
		Owners: map[string]string{"(*network/dag.state).loadState": "reload from storage (start-up and rollback)"}})
	us := p.Func("network/dag", "state", "updateState")
	load := CallV(Callee{Desc: "lamportClockHigh.Load", M: func(cc *ssa.CallCommon) bool {
		f := cc.StaticCallee()
		return f != nil && f.Name() == "Load" && f.Pkg != nil && f.Pkg.Pkg.Path() == "sync/atomic" && isHigh(cc)
	}}, -1)
	clock := CallV(Fn("network/dag", "Transaction", "Clock"), -1)
	r.Gate(Gate{ID: pre+".raised-only", Fn: us, Effect: CallEffect(cas), Check: CmpCheck("loaded value < transaction clock", token.LSS, load, clock, true)})
	r.ArgIs(pre+".cas-from-loaded", us, cas, 0, load, 1)
	r.ArgIs(pre+".cas-to-tx-clock", us, cas, 1, clock, 1)
	r.Own(OwnSpec{ID: pre+".raise-only-in-updateState", Op: "raise the highest Lamport clock (CompareAndSwap)", Sites: p.CallSites(cas, true), Min: 1,
		Owners: map[string]string{"(*network/dag.state).updateState": "admission of a transaction"}})
}

// c08DigestReadFromTree: what XOR()/IBLT() hand out is read from the tree store at the time of the call: there is no second,
// separately maintained copy of a digest that the writers (Add, reload, repair) would each have to remember to refresh.
func c08DigestReadFromTree(r *Report) {
	p := r.P
	const dag = "network/dag"
	getters := CallV(AnyOf(Fn(dag, "treeStore", "getZeroTo"), Fn(dag, "treeStore", "getRoot")), -1)
	fromTree := OriginV(getters)
	for _, c := range []struct{ method, what string }{{"XOR", "hash"}, {"IBLT", "filter"}} {
		rule := "ARG: the " + c.what + " returned by state." + c.method + " is derived from the value treeStore.getZeroTo/getRoot returned in this call"
		fn := p.Func(dag, "state", c.method)
		if fn == nil {
			r.Lost("C08.digest.read-from-tree."+c.method, rule, "function not found")
			continue
		}
		key := "C08.digest.read-from-tree @ " + p.FuncName(fn)
		n, bad := 0, ""
		for _, b := range fn.Blocks {
			ret, ok := b.Instrs[len(b.Instrs)-1].(*ssa.Return)
			if !ok || len(ret.Results) == 0 {
				continue
			}
			n++
			v := Unspill(ret.Results[0])
			// peel: method call on / dereference of / type assertion of the tree data
			for i := 0; i < 6; i++ {
				v = StripConv(v)
				switch x := v.(type) {
				case *ssa.Call:
					if x.Call.IsInvoke() {
						v = x.Call.Value
						continue
					}
					if len(x.Call.Args) > 0 && x.Call.StaticCallee() != nil && x.Call.StaticCallee().Signature.Recv() != nil && !getters.M(x) {
						v = x.Call.Args[0]
						continue
					}
				case *ssa.UnOp:
					if x.Op == token.MUL {
						if _, isAlloc := x.X.(*ssa.Alloc); !isAlloc {
							v = x.X
							continue
						}
					}
				case *ssa.TypeAssert:
					v = x.X
					continue
				}
				break
			}
			if !fromTree.M(v) && !c08HelperReturnsTreeData(p, v, fromTree) {
				bad = p.Pos(ret.Pos()) + ": returns " + AccessPath(ret.Results[0], 0)
			}
		}
		r.Sites += n
		switch {
		case n == 0:
			r.Lost(key, rule, "no return found")
		case bad != "":
			r.Bad(key, rule, bad, "the returned "+c.what+" does not come from the tree store (a cached copy has to be kept in step by every writer, including the repair and the rollback reload)")
		default:
			r.OK(key, rule, p.Pos(fn.Pos()), fmt.Sprintf("%d return(s)", n), true)
		}
	}
}

// c08HelperReturnsTreeData: v is (a component of) the result of a helper of the dag package every return of which hands
// back, in that position, a value read from the tree store (the page-selection block extracted into a helper).
func c08HelperReturnsTreeData(p *Prog, v ssa.Value, fromTree VPat) bool {
	idx := 0
	if ex, ok := v.(*ssa.Extract); ok {
		idx = ex.Index
		v = ex.Tuple
	}
	call, ok := v.(*ssa.Call)
	if !ok {
		return false
	}
	h := call.Call.StaticCallee()
	if h == nil || len(h.Blocks) == 0 || !p.InModule(h) || !strings.HasSuffix(h.Pkg.Pkg.Path(), "/network/dag") {
		return false
	}
	n := 0
	for _, b := range h.Blocks {
		ret, ok := b.Instrs[len(b.Instrs)-1].(*ssa.Return)
		if !ok || idx >= len(ret.Results) {
			continue
		}
		n++
		if !fromTree.M(StripConv(Unspill(ret.Results[idx]))) {
			return false
		}
	}
	return n > 0
}

// c08AddCriticalSection: the write of Add and the reload after its rollback are one critical section — the database releases
// its write lock before it calls OnRollback, and another Add in that window inserts into (and persists) trees that still hold
// the rolled-back transaction. The mutex is taken before db.Write and released either after Write returned (deferred) or at
// the start of the AfterCommit callback.
func c08AddCriticalSection(r *Report, add *ssa.Function) {
	p := r.P
	rule := "ORDER: state.Add locks the state's add-mutex before db.Write; the unlock is deferred (so it follows the OnRollback reload) and is not called inside the OnRollback callback"
	key := "C08.rollback.add-and-reload-are-one-critical-section"
	if add == nil {
		r.Lost(key, rule, "state.Add not found")
		return
	}
	key += " @ " + p.FuncName(add)
	locks := Calls(add, Fn("std:sync", "Mutex", "Lock"))
	writes := Calls(add, Fn(stoabsPkg, "KVStore", "Write"))
	r.Sites += len(locks) + len(writes)
	if len(writes) != 1 {
		r.Lost(key, rule, fmt.Sprintf("%d Write calls", len(writes)))
		return
	}
	ok := false
	for _, l := range locks {
		if FieldV("state", "addMutex").M(CallArg(l.Common(), -1)) || strings.Contains(AccessPath(CallArg(l.Common(), -1), 0), "Mutex") {
			if InstrDominates(l, writes[0]) {
				ok = true
			}
		}
	}
	if !ok {
		r.Bad(key, rule, p.Pos(writes[0].Pos()), "db.Write is not dominated by a Lock of the state's mutex")
		return
	}
	// a deferred unlock exists in Add itself
	deferred := false
	for _, b := range add.Blocks {
		for _, in := range b.Instrs {
			if _, isDefer := in.(*ssa.Defer); isDefer {
				deferred = true
			}
		}
	}
	if !deferred {
		r.Bad(key, rule, p.Pos(add.Pos()), "no deferred unlock in Add: the mutex would be released before (or never after) the rollback reload")
		return
	}
	r.OK(key, rule, p.Pos(writes[0].Pos()), "Lock dominates db.Write; unlock deferred", true)
}
