package props

import (
	"fmt"
	"go/constant"
	"go/token"
	"go/types"
	"strings"

	"golang.org/x/tools/go/ssa"

	. "verifcheck/an"
)

// Rules added after the seventh (blind) seeding round (one change per property; the agents were given the list of all earlier
// changes and told to go elsewhere). Each comment names the seed it answers.

var _ = types.Typ
var _ = constant.MakeBool

// ---------- C01 ----------

func c01Seed7(r *Report) {
	p := r.P
	// C01-k: a proof with an `expires` is refused after that moment, whatever the moment is (also year 1 — Go's zero time is a
	// perfectly signable value): ValidAt answers true only when there is no expiry at all or the expiry comparison says
	// "not yet"; no further condition (IsZero, …) lets an expired proof through
	va := p.Func("vcr/signature/proof", "ProofOptions", "ValidAt")
	r.Gate(Gate{ID: "C01.ld.proof-window.expired-is-refused", Fn: va, Effect: ReturnsConstBoolVal(0, true),
		Check: TimeOrder("expires(+skew) is before the validation time: false", AnyV(), ParamV("at"), IsFalse),
		Alt:   []Check{CmpCheck("o.Expires == nil", token.EQL, FieldV("ProofOptions", "Expires"), NilV(), true)}})
}

// ---------- C02 ----------

// monotoneFlags: every boolean that a loop of fn carries from one iteration to the next (a bool phi in a loop header) only
// ever moves ONE way inside the loop: the values merged into it on the way round are itself and one constant (the opposite of
// its initial value). `flag = cond` inside the loop (the last element decides) and a reset to the initial value both fail.
// monotoneFlagsIn applies monotoneFlags to every production function of the given packages that carries a boolean over a loop.
func monotoneFlagsIn(r *Report, id string, min int, pkgs ...string) {
	p := r.P
	n := 0
	for _, fn := range p.Funcs {
		if fn.Pkg == nil || p.FileClass(p.FuncPos(fn)) != "prod" || len(fn.Blocks) == 0 {
			continue
		}
		in := false
		for _, pk := range pkgs {
			if strings.HasSuffix(fn.Pkg.Pkg.Path(), "/"+pk) {
				in = true
			}
		}
		if !in {
			continue
		}
		has := false
		for _, l := range Loops(fn) {
			for _, ins := range l.Header.Instrs {
				phi, ok := ins.(*ssa.Phi)
				if !ok {
					break
				}
				if b, isB := phi.Type().Underlying().(*types.Basic); isB && b.Kind() == types.Bool {
					has = true
				}
			}
		}
		if has {
			n++
			monotoneFlags(r, id, fn, 1)
		}
	}
	if n < min {
		r.Lost(id, "ARG: loop-carried boolean flags are sticky", fmt.Sprintf("%d function(s) with such a flag in %v, expected >= %d", n, pkgs, min))
	}
}

func monotoneFlags(r *Report, id string, fn *ssa.Function, min int) {
	rule := "ARG: every boolean flag accumulated over a loop is sticky: inside the loop it is only ever set to one constant (never recomputed from the current element, never reset)"
	if fn == nil {
		r.Lost(id, rule, "anchored function not found")
		return
	}
	key := id + " @ " + r.P.FuncName(fn)
	loops := Loops(fn)
	n := 0
	for _, l := range loops {
		for _, in := range l.Header.Instrs {
			phi, ok := in.(*ssa.Phi)
			if !ok {
				break
			}
			if b, isB := phi.Type().Underlying().(*types.Basic); !isB || b.Kind() != types.Bool {
				continue
			}
			n++
			// leaves arriving over back edges (predecessors inside the loop)
			var consts []bool
			seen := map[ssa.Value]bool{phi: true}
			var bad ssa.Value
			var from *ssa.BasicBlock // the block over which the value currently walked arrives
			derived := false         // a recomputed value known to equal a constant on the way back (the break idiom)
			var walk func(v ssa.Value)
			walk = func(v ssa.Value) {
				if c, isC := ConstBool(v); isC {
					consts = append(consts, c)
					return
				}
				if ph, isPhi := v.(*ssa.Phi); isPhi && l.Body[ph.Block()] {
					if seen[v] {
						return
					}
					seen[v] = true
					for i, e := range ph.Edges {
						from = ph.Block().Preds[i]
						walk(e)
					}
					return
				}
				// `flag = f(x); if !flag { break }`: the value is recomputed, but the loop only goes round while it equals one
				// constant (the test dominates the way back): that is the same sticky flag
				if from != nil {
					// the back edge itself is the true/false edge of a test of the value
					if iff, isIf := from.Instrs[len(from.Instrs)-1].(*ssa.If); isIf && len(from.Succs) == 2 && from.Succs[0] != from.Succs[1] {
						atom, neg := iff.Cond, false
						for {
							u, isNot := atom.(*ssa.UnOp)
							if !isNot || u.Op != token.NOT {
								break
							}
							atom, neg = u.X, !neg
						}
						if atom == v {
							for i, sc := range from.Succs {
								if sc == l.Header {
									consts = append(consts, (i == 0) != neg)
									derived = true
									return
								}
							}
						}
					}
					for _, c := range []bool{true, false} {
						if FactHoldsValue(from, func(x ssa.Value) bool { return x == v }, c) {
							consts = append(consts, c)
							derived = true
							return
						}
					}
				}
				bad = v
			}
			for i, e := range phi.Edges {
				if l.Body[l.Header.Preds[i]] {
					from = l.Header.Preds[i]
					walk(e)
				}
			}
			if bad != nil {
				r.Bad(key, rule, r.P.Pos(phi.Pos()), "the flag is recomputed inside the loop from "+AccessPath(bad, 0)+": the last element decides, earlier ones are forgotten")
				return
			}
			for _, c := range consts {
				if c != consts[0] {
					r.Bad(key, rule, r.P.Pos(phi.Pos()), "the flag is set to true on one path and to false on another inside the loop")
					return
				}
			}
			// the constant set inside the loop differs from the initial value
			for i, e := range phi.Edges {
				if !l.Body[l.Header.Preds[i]] {
					if c, isC := ConstBool(e); isC && !derived && len(consts) > 0 && c == consts[0] {
						r.Bad(key, rule, r.P.Pos(phi.Pos()), "the loop only ever re-assigns the initial value: the flag cannot record anything")
						return
					}
				}
			}
		}
	}
	r.Sites += n
	if n < min {
		r.Lost(key, rule, fmt.Sprintf("%d loop-carried boolean flag(s), expected >= %d", n, min))
		return
	}
	r.OK(key, rule, r.P.Pos(fn.Pos()), fmt.Sprintf("%d flag(s)", n), true)
}

func c02Seed7(r *Report) {
	p := r.P
	// C02-k: "every presentation carries the nonce": one presentation without a nonce fails the set, wherever it stands in
	// the array — the all-present flag is cleared, never recomputed per element
	monotoneFlags(r, "C02.inner.nonce.all-present-flag-is-sticky", p.Func("auth/api/iam", "Wrapper", "validatePresentationNonce"), 1)
}

// ---------- C03 ----------

func c03Seed7(r *Report) {
	p := r.P
	// C03-k: the jwk header of a DPoP proof is ALWAYS the public key of the key that signs it: every path of Sign to the
	// signature first (re)sets the header from key.Public() — a header that is already there (shared by a copy of the token,
	// or supplied by the caller: possibly a private JWK) is overwritten, never kept
	sg := p.Func("crypto/dpop", "DPoP", "Sign")
	key := "C03.dpop.jwk-header-always-set-from-the-signing-key"
	rule := "ORDER: every path of DPoP.Sign to jwt.Sign passes Headers.Set(\"jwk\", jwk.FromRaw(key.Public()))"
	if sg == nil {
		r.Lost(key, rule, "DPoP.Sign not found")
		return
	}
	isSign := func(in ssa.Instruction) bool {
		c, ok := in.(*ssa.Call)
		if !ok {
			return false
		}
		f := c.Common().StaticCallee()
		return f != nil && f.Name() == "Sign" && f.Pkg != nil && strings.HasSuffix(f.Pkg.Pkg.Path(), "/jwx/v2/jwt")
	}
	wrong := ""
	isSet := func(in ssa.Instruction) bool {
		c, ok := in.(ssa.CallInstruction)
		if !ok || c.Common().Method == nil || c.Common().Method.Name() != "Set" || len(c.Common().Args) < 2 {
			return false
		}
		if s, isS := ConstString(StripConv(c.Common().Args[0])); !isS || s != "jwk" {
			return false
		}
		if !DerivedOrIface(CallV(Fn("std:crypto", "Signer", "Public"), -1)).M(c.Common().Args[1]) && !strings.Contains(AccessPath(c.Common().Args[1], 0), "FromRaw") {
			wrong = p.Pos(c.Pos())
			return false
		}
		return true
	}
	nE, nM, bad := passesBefore(sg, isSign, isSet)
	r.Sites += nE + nM
	switch {
	case nE == 0:
		r.Lost(key, rule, "no jwt.Sign call in DPoP.Sign")
	case wrong != "":
		r.Bad(key, rule, wrong, "the jwk header is set from something other than the signing key's public key")
	case bad != token.NoPos:
		r.Bad(key, rule, p.Pos(bad), "the proof is signed on a path that kept whatever jwk header was already there")
	default:
		r.OK(key, rule, p.Pos(sg.Pos()), "", true)
	}
}

// ---------- C04 ----------

func c04Seed7(r *Report) {
	p := r.P
	// C04-k: an authorised RSA key has a modulus of at least minimumRSAKeySize BITS: the number compared with the minimum is
	// N.BitLen() itself (Size()*8 rounds 2041..2047 up to 2048)
	ks := p.Func("http/tokenV2", "", "keyIsSecure")
	key := "C04.keys.rsa-size-is-the-modulus-bit-length"
	rule := "ARG: every comparison with minimumRSAKeySize in keyIsSecure compares (*big.Int).BitLen() of the modulus, unscaled"
	if ks == nil {
		r.Lost(key, rule, "keyIsSecure not found")
		return
	}
	minv, okc := p.ConstValue("http/tokenV2", "minimumRSAKeySize")
	if !okc {
		r.Lost(key, rule, "constant minimumRSAKeySize not found")
		return
	}
	n := 0
	for _, b := range ks.Blocks {
		for _, in := range b.Instrs {
			bo, ok := in.(*ssa.BinOp)
			if !ok {
				continue
			}
			var other ssa.Value
			if c, isC := bo.Y.(*ssa.Const); isC && c.Value != nil && c.Value.ExactString() == minv {
				other = bo.X
			} else if c, isC := bo.X.(*ssa.Const); isC && c.Value != nil && c.Value.ExactString() == minv {
				other = bo.Y
			}
			if other == nil {
				continue
			}
			switch bo.Op {
			case token.GEQ, token.LSS, token.LEQ, token.GTR:
			default:
				continue
			}
			n++
			call, isCall := StripConv(other).(*ssa.Call)
			if !isCall || call.Common().StaticCallee() == nil || call.Common().StaticCallee().String() != "(*math/big.Int).BitLen" {
				r.Bad(key, rule, p.Pos(bo.Pos()), "the minimum is compared with "+AccessPath(other, 0))
				return
			}
		}
	}
	r.Sites += n
	if n == 0 {
		r.Lost(key, rule, "no comparison with minimumRSAKeySize in keyIsSecure")
		return
	}
	r.OK(key, rule, p.Pos(ks.Pos()), fmt.Sprintf("%d comparison(s)", n), true)
}

// ---------- C06 ----------

func c06Seed7(r *Report) {
	p := r.P
	// C06-k: "either kid or jwk, not both" is decided on the headers as they were signed: the key id recorded for the
	// transaction is the kid header's value — nothing in the parser blanks or rewrites it before the constraint is tested,
	// and it is recorded whenever the header is there (not only when no key is embedded)
	ps := p.Func("network/dag", "", "parseSignatureParams")
	isHeaderValue := func(v ssa.Value) (*ssa.Call, bool) {
		ta, ok := StripConv(v).(*ssa.TypeAssert)
		if !ok {
			return nil, false
		}
		x := ta.X
		if ex, isEx := x.(*ssa.Extract); isEx {
			x = ex.Tuple
		}
		c, isC := x.(*ssa.Call)
		return c, isC && c.Common().Method != nil && c.Common().Method.Name() == "Get"
	}
	r.FieldStoredIs("C06.parse.kid-is-the-header-value", ps, "transaction", "signingKeyID", VPat{Desc: "the value of the kid header (headers.Get)", M: func(v ssa.Value) bool {
		_, ok := isHeaderValue(v)
		return ok
	}}, 1)
	key := "C06.parse.kid-recorded-whenever-present"
	rule := "ORDER: the store of the kid header's value depends on nothing but the presence of that header (the ok result of the same headers.Get)"
	if ps == nil {
		r.Lost(key, rule, "parseSignatureParams not found")
		return
	}
	n := 0
	for _, b := range ps.Blocks {
		for _, in := range b.Instrs {
			st, ok := isStoreToField(in, "", "signingKeyID")
			if !ok {
				continue
			}
			get, isHV := isHeaderValue(st.Val)
			if !isHV {
				continue
			}
			n++
			for _, c := range branchConds(b) {
				c = StripConv(c)
				if ex, isEx := c.(*ssa.Extract); isEx && ex.Tuple == ssa.Value(get) {
					continue
				}
				// conditions of EARLIER early returns (the jwk header's checks) dominate too: only conditions that mention
				// the transaction's own fields are a dependency on what was parsed before
				if strings.Contains(AccessPath(c, 0), "signingKey") {
					r.Bad(key, rule, p.Pos(st.Pos()), "the key id is recorded only when "+AccessPath(c, 0))
					return
				}
			}
		}
	}
	r.Sites += n
	if n == 0 {
		r.Lost(key, rule, "no store of the kid header value")
		return
	}
	r.OK(key, rule, p.Pos(ps.Pos()), "", true)
}

// branchConds: the atoms of the If conditions that decide whether control reaches b (dominating Ifs one of whose two
// successors leads to b and the other does not dominate it), with short-circuit operands each as its own If.
func branchConds(b *ssa.BasicBlock) []ssa.Value {
	var out []ssa.Value
	for x := b; x != nil && x.Idom() != nil; x = x.Idom() {
		d := x.Idom()
		iff, ok := d.Instrs[len(d.Instrs)-1].(*ssa.If)
		if !ok {
			continue
		}
		// d decides about x unless x post-dominates both arms (approximation: x is a join of both successors)
		reach0 := Reach(d.Succs[0], nil, map[*ssa.BasicBlock]bool{x: true})
		reach1 := Reach(d.Succs[1], nil, map[*ssa.BasicBlock]bool{x: true})
		hits := func(m map[*ssa.BasicBlock]bool, start *ssa.BasicBlock) bool {
			if start == x {
				return true
			}
			for bb := range m {
				for _, s := range bb.Succs {
					if s == x {
						return true
					}
				}
			}
			return false
		}
		if hits(reach0, d.Succs[0]) && hits(reach1, d.Succs[1]) {
			continue
		}
		c := iff.Cond
		for {
			u, isNot := c.(*ssa.UnOp)
			if !isNot || u.Op != token.NOT {
				break
			}
			c = u.X
		}
		if bo, isB := c.(*ssa.BinOp); isB {
			out = append(out, bo.X, bo.Y)
		}
		out = append(out, c)
	}
	return out
}

// ---------- C07 ----------

func c07Seed7(r *Report) {
	p := r.P
	const v2 = "network/transport/v2"
	// C07-k: after an IBLT that does not decode the node asks for the page DIRECTLY below the one that failed: every page
	// between the failing one and the first one that decodes is visited (skipping pages loses the highest page on which the
	// two DAGs still agree, and the range query that follows never covers the pages that differ)
	hs := p.Func(v2, "protocol", "handleTransactionSet")
	key := "C07.progress.fallback-one-page-down"
	rule := "ARG: the clock of the follow-up State request in handleTransactionSet is pageClockStart(clockToPageNum(minLC)) - 1: the page number is passed on unscaled"
	if hs == nil {
		r.Lost(key, rule, "handleTransactionSet not found")
		return
	}
	n := 0
	for _, ci := range Calls(hs, Fn(v2, "", "pageClockStart")) {
		// only the call that feeds the State request (result minus one)
		c, _ := ci.(*ssa.Call)
		if c == nil {
			continue
		}
		feedsMinusOne := false
		for _, ref := range *c.Referrers() {
			if bo, ok := ref.(*ssa.BinOp); ok && bo.Op == token.SUB {
				if k, isK := ConstInt(bo.Y); isK && k == 1 {
					feedsMinusOne = true
				}
			}
		}
		if !feedsMinusOne {
			continue
		}
		n++
		if !CallV(Fn(v2, "", "clockToPageNum"), 0).M(StripConv(CallArg(c.Common(), 0))) {
			r.Bad(key, rule, p.Pos(c.Pos()), "the page asked for next is "+AccessPath(CallArg(c.Common(), 0), 0)+", not the page the failing clock is on")
			return
		}
	}
	r.Sites += n
	if n == 0 {
		r.Lost(key, rule, "no pageClockStart(..) - 1 in handleTransactionSet")
		return
	}
	r.OK(key, rule, p.Pos(hs.Pos()), "", true)
}

// ---------- C08 ----------

func c08Seed7(r *Report) {
	p := r.P
	const dag = "network/dag"
	// C08-k: the digest for a requested clock is the sum of the pages up to that clock: the whole-tree root answers only a
	// request at or beyond the highest clock — "close to the head" is not enough (the head's page is the only one the root
	// stands for)
	load := CallV(Callee{Desc: "lamportClockHigh.Load", M: func(cc *ssa.CallCommon) bool {
		f := cc.StaticCallee()
		return f != nil && f.Name() == "Load" && f.Pkg != nil && f.Pkg.Pkg.Path() == "sync/atomic"
	}}, -1)
	// anchored on whichever production function of the package takes the root (XOR and IBLT today; a shared helper after a
	// refactoring): there the requested clock is a parameter
	anyParam := VPat{Desc: "the requested clock (a parameter)", M: func(v ssa.Value) bool {
		v = StripConv(v)
		if _, ok := v.(*ssa.Parameter); ok {
			return true
		}
		if u, ok := v.(*ssa.UnOp); ok && u.Op == token.MUL {
			if a, isA := u.X.(*ssa.Alloc); isA {
				for _, prm := range a.Parent().Params {
					if prm.Name() == a.Comment {
						return true
					}
				}
			}
		}
		return false
	}}
	seen := map[*ssa.Function]bool{}
	for _, site := range p.CallSites(Fn(dag, "treeStore", "getRoot"), false) {
		fn := site.Fn
		if seen[fn] || p.FileClass(p.FuncPos(fn)) != "prod" {
			continue
		}
		// only functions that answer for a REQUESTED clock (a uint32 parameter); Diagnostics reports the whole DAG
		hasClock := false
		for _, prm := range fn.Params {
			if b, isB := prm.Type().Underlying().(*types.Basic); isB && b.Kind() == types.Uint32 {
				hasClock = true
			}
		}
		if !hasClock {
			continue
		}
		seen[fn] = true
		r.Gate(Gate{ID: "C08.digest.root-only-at-or-beyond-the-head." + fn.Name(), Fn: fn, Effect: CallEffect(Fn(dag, "treeStore", "getRoot")),
			Check: CmpCheck("requested clock < highest clock is false", token.LSS, anyParam, load, false)})
	}
	if len(seen) == 0 {
		r.Lost("C08.digest.root-only-at-or-beyond-the-head", "GATE", "no production call of treeStore.getRoot")
	}
}

// ---------- C10 ----------

func c10Seed7(r *Report) {
	p := r.P
	const ds = "vdr/didnuts/didstore"
	// C10-k: the document count is a function of the stored set: a DID is counted when its FIRST version comes into being
	// (version 0 of the re-applied list), not whenever an event happens to be inserted in front of all known ones
	af := p.Func(ds, "store", "applyFrom")
	r.Gate(Gate{ID: "C10.count.document-counted-once-at-version-zero", Fn: af, Effect: CallEffect(Fn(ds, "", "incrementDocumentCount")),
		Check: CmpCheck("metadata.Version == 0", token.EQL, FieldV("documentMetadata", "Version"), IntV(0), true)})
}

// ---------- C15 ----------

func c15Seed7(r *Report) {
	p := r.P
	// C15-k: "on the decrypted list" means: equal to a listed DID as DIDs are compared everywhere else (did.DID.Equals): no
	// looser notion of sameness (decoded form, case folding, …) puts a peer on a list it is not spelled on
	ct := p.Func("network/dag", "PAL", "Contains")
	r.Gate(Gate{ID: "C15.pal.contains-only-by-did-equality", Fn: ct, Effect: ReturnsConstBoolVal(0, true),
		Check: CallCheck(Fn(goDid+"/did", "DID", "Equals"), 0, IsTrue)})
}

// ---------- C14 ----------

func c14Seed7(r *Report) {
	p := r.P
	// C14-k: what ends the retries of an event is the receiver's verdict (finished / fatal) or the budget — nothing else:
	// the retry loop of the notifier is configured without a RetryIf predicate (a predicate that stops on some class of
	// errors leaves the job on the shelf below the failure threshold: neither retried nor listed as failed)
	rt := p.Func("network/dag", "notifier", "retry")
	key := "C14.retry.no-error-class-ends-the-retries"
	rule := "OWN: notifier.retry passes no retry.RetryIf option to retry.Do (control: the other retry options are found by the same matcher)"
	if rt == nil {
		r.Lost(key, rule, "notifier.retry not found")
		return
	}
	nIf, nOther := 0, 0
	var pos token.Pos
	for _, f := range WithAnons(rt) {
		for _, b := range f.Blocks {
			for _, in := range b.Instrs {
				c, ok := in.(*ssa.Call)
				if !ok {
					continue
				}
				callee := c.Common().StaticCallee()
				if callee == nil || callee.Pkg == nil || !strings.HasSuffix(callee.Pkg.Pkg.Path(), "avast/retry-go/v4") {
					continue
				}
				if callee.Name() == "RetryIf" {
					nIf++
					pos = c.Pos()
				} else {
					nOther++
				}
			}
		}
	}
	r.Sites += nIf + nOther
	switch {
	case nOther < 3:
		r.Lost(key, rule, fmt.Sprintf("only %d retry-go calls found in notifier.retry (control failed)", nOther))
	case nIf > 0:
		r.Bad(key, rule, p.Pos(pos), "a RetryIf predicate decides which errors are retried: an error it refuses ends the delivery attempts without the receiver having said 'fatal'")
	default:
		r.OK(key, rule, p.Pos(rt.Pos()), fmt.Sprintf("%d retry-go option calls, none RetryIf", nOther), true)
	}
}

// ---------- C18 ----------

// docFieldsTested: the did.Document fields whose length a predicate looks at.
func docFieldsTested(fn *ssa.Function) map[string]bool {
	out := map[string]bool{}
	for _, b := range fn.Blocks {
		for _, in := range b.Instrs {
			c, ok := in.(*ssa.Call)
			if !ok {
				continue
			}
			if bi, isB := c.Call.Value.(*ssa.Builtin); !isB || bi.Name() != "len" || len(c.Call.Args) != 1 {
				continue
			}
			v := StripConv(c.Call.Args[0])
			for i := 0; i < 3; i++ {
				if u, isU := v.(*ssa.UnOp); isU && u.Op == token.MUL {
					v = u.X
					continue
				}
				break
			}
			switch x := v.(type) {
			case *ssa.FieldAddr:
				out[fieldName(x.X.Type(), x.Field)] = true
			case *ssa.Field:
				out[fieldName(x.X.Type(), x.Field)] = true
			}
		}
	}
	return out
}

func c18Seed7(r *Report) {
	p := r.P
	// C18-k: "deactivated" has ONE definition (no controller and no capabilityInvocation key): the did:nuts store, which
	// records the flag when a version is written, and the resolver package, which tests documents at resolve time, look at the
	// same two members — a store that looks at other members records active for a document nobody can ever update again
	key := "C18.deactivated.one-definition"
	rule := "SIBLING: didstore.isDeactivated and resolver.IsDeactivated test the same did.Document members (Controller, CapabilityInvocation)"
	a := p.Func("vdr/didnuts/didstore", "", "isDeactivated")
	b := p.Func("vdr/resolver", "", "IsDeactivated")
	if a == nil || b == nil {
		r.Lost(key, rule, "one of the two predicates not found")
		return
	}
	fa, fb := docFieldsTested(a), docFieldsTested(b)
	r.Sites += len(fa) + len(fb)
	want := map[string]bool{"Controller": true, "CapabilityInvocation": true}
	same := func(x, y map[string]bool) bool {
		if len(x) != len(y) {
			return false
		}
		for k := range x {
			if !y[k] {
				return false
			}
		}
		return true
	}
	if !same(fa, want) || !same(fb, want) {
		r.Bad(key, rule, p.Pos(a.Pos()), fmt.Sprintf("didstore.isDeactivated tests %v, resolver.IsDeactivated tests %v", keysOf(fa), keysOf(fb)))
		return
	}
	r.OK(key, rule, p.Pos(a.Pos()), "", true)
}
