package props

import (
	"fmt"
	"go/token"
	"go/types"
	"regexp"
	"sort"
	"strings"

	"golang.org/x/tools/go/ssa"

	. "verifcheck/an"
)

func init() { Registry["C20"] = c20 }

var reStrict = regexp.MustCompile(`(?i)^(in)?strict_?mode$`)

func strictVals(fn *ssa.Function) []ssa.Value {
	// loads of fields / params / globals whose name is a strict-mode name
	var out []ssa.Value
	for _, prm := range fn.Params {
		if reStrict.MatchString(prm.Name()) || reStrict.MatchString(BaselineParamName(prm)) {
			out = append(out, prm)
		}
	}
	for _, b := range fn.Blocks {
		for _, in := range b.Instrs {
			switch x := in.(type) {
			case *ssa.UnOp:
				if x.Op != token.MUL {
					continue
				}
				switch a := x.X.(type) {
				case *ssa.FieldAddr:
					if reStrict.MatchString(fieldNameAt(a.X.Type(), a.Field)) {
						out = append(out, x)
					}
				case *ssa.Global:
					if reStrict.MatchString(a.Name()) {
						out = append(out, x)
					}
				case *ssa.Alloc:
					if reStrict.MatchString(a.Comment) || reStrict.MatchString(BaselineVarName(a.Comment, a.Parent())) {
						out = append(out, x)
					}
				}
			case *ssa.Field:
				if reStrict.MatchString(fieldNameAt(x.X.Type(), x.Field)) {
					out = append(out, x)
				}
			}
		}
	}
	return out
}

func fieldNameAt(t types.Type, idx int) string {
	if p, ok := t.Underlying().(*types.Pointer); ok {
		t = p.Elem()
	}
	if st, ok := t.Underlying().(*types.Struct); ok && idx < st.NumFields() {
		return st.Field(idx).Name()
	}
	return ""
}

func strictOn() Check { return Check{Desc: "strict mode on", Pass: IsTrue, Values: strictVals} }

func c20(r *Report) {
	defer c20Seed5(r)
	defer c20Audit4(r)
	p := r.P
	r.Explanation = "Static decision that each documented strict-mode refusal exists and is wired to the flag: for every refusal the failing branch is reachable under the strict flag and its own option only (with the flag on and the insecure option present, success is unreachable; the effect that is insecure is reachable only with the flag off); the flag reaches every component that consults it (every strict-mode struct field / global is assigned from the server configuration's flag, never left at its zero value); strict is the default; outbound HTTP goes through the strict client, which refuses non-https requests when the flag is on; configuration keys that moved and secrets on the command line are refused independently of the flag."
	r.NotDecided = []string{"koanf's precedence rules and file/env parsing", "whether the documentation lists everything that ought to be refused", "IRMA library production-mode behaviour"}
	r.Assumptions = []string{"each refusal's condition reads only the strict flag and its own option, so the refusals are independent and the per-option result extends to all option combinations"}

	// --- public URL
	pu := p.Func("core", "", "ParsePublicURL")
	c20ParsePublicURL(r, pu)
	ws := p.Func("core", "", "ParsePublicURLWithScheme")
	ok := ReturnsNonNil(0)
	r.Gate(Gate{ID: "C20.url.parsed", Fn: ws, Effect: ok, Check: ErrCheck(Fn("std:net/url", "", "Parse"))})
	r.Gate(Gate{ID: "C20.url.scheme-allowed", Fn: ws, Effect: ok, Check: CallCheck(Fn("std:slices", "", "Contains"), -1, IsTrue), Alt: []Check{CmpCheck("no scheme restriction", token.LEQ, LenV(ParamV("allowedSchemes")), IntV(0), true)}})
	r.Gate(Gate{ID: "C20.url.not-ip", Fn: ws, Effect: ok, Assume: map[string]bool{"allowReserved": false}, // the host is not an IP literal — tested with netip.ParseAddr, which (unlike net.ParseIP) also recognises zoned IPv6 literals
		Check: CallCheck(Fn("std:net/netip", "", "ParseAddr"), -1, NonNil)})
	r.Gate(Gate{ID: "C20.url.not-reserved", Fn: ws, Effect: ok, Assume: map[string]bool{"allowReserved": false}, Check: CallCheck(Fn("core", "", "isReserved"), -1, IsFalse)})
	r.Gate(Gate{ID: "C20.url.has-scheme-and-host", Fn: ws, Effect: ok, Check: CmpCheck("Scheme == \"\" is false", token.EQL, FieldV("URL", "Scheme"), StrV(""), false)})
	c20ServerURL(r)
	r.ConstTable(TableSpec{ID: "C20.url.reserved-tlds", Pkg: "core", Var: "reservedTLDs", Required: []string{"", "localhost", "local", "test", "example", "invalid"}, Min: 6})

	// --- outbound HTTP
	do := p.Func("http/client", "StrictHTTPClient", "Do")
	r.Gate(Gate{ID: "C20.httpclient.request-only-if-https-or-not-strict", Fn: do, Effect: CallEffect(Fn("std:net/http", "Client", "Do")),
		Check: CmpCheck("req.URL.Scheme == \"https\"", token.EQL, FieldV("URL", "Scheme"), StrV("https"), true), Alt: []Check{Check{Desc: "strict mode off", Pass: IsFalse, Values: strictVals}}})
	c20ClientFlagSet(r)
	c20OutboundClients(r)
	c20IAMClientURLs(r)
	rp := p.Func("auth/services/oauth", "relyingParty", "RequestRFC003AccessToken")
	r.Gate(Gate{ID: "C20.relyingparty.https-endpoint", Fn: rp, Effect: ok,
		Check: CmpCheck("ToLower(scheme) == \"https\"", token.EQL, CallV(Fn("std:strings", "", "ToLower"), -1), StrV("https"), true), Alt: []Check{Check{Desc: "strict mode off", Pass: IsFalse, Values: strictVals}}})

	// --- refusals at configuration time: with strict on and the insecure option, success is unreachable
	cc := p.Func("crypto", "Crypto", "Configure")
	r.Gate(Gate{ID: "C20.crypto.implicit-backend-only-if-not-strict", Fn: cc, Effect: CallEffect(Fn("crypto", "Crypto", "setupFSBackend")),
		Check: Check{Desc: "strict mode off", Pass: IsFalse, Values: strictVals}, Alt: []Check{CmpCheck("storage == \"fs\" (explicit)", token.EQL, AnyV(), StrV("fs"), true)}})
	sq := p.Func("storage", "engine", "initSQLDatabase")
	r.Gate(Gate{ID: "C20.sql.implicit-sqlite-only-if-not-strict", Fn: sq, Effect: CallEffect(Fn("storage", "", "sqliteConnectionString")), Check: Check{Desc: "strict mode off", Pass: IsFalse, Values: strictVals}})
	c20FlagArg(r, "C20.sql.flag-passed", p.Func("storage", "engine", "Configure"), Fn("storage", "engine", "initSQLDatabase"), 0)
	nc := p.Func("network", "Network", "Configure")
	r.Gate(Gate{ID: "C20.tls.no-tls-only-if-not-strict", Fn: nc, Effect: CallEffect(Fn("network/transport/grpc", "", "NewDummyAuthenticator")), Check: Check{Desc: "strict mode off", Pass: IsFalse, Values: strictVals}})
	// strict mode accepts only production-scheme (pbdf) IRMA attributes — each attribute, not just the first one
	psa := p.Func("auth/services/irma", "", "parseSignerAttributes")
	r.Gate(Gate{ID: "C20.irma.every-attribute-from-production-scheme", Fn: psa, ForEach: true,
		Effect: InstrEffect("disclosedAttributes[id] = value", func(in ssa.Instruction) bool { _, ok := in.(*ssa.MapUpdate); return ok }),
		Check:  CmpCheck("attribute.Identifier.Root() == \"pbdf\"", token.EQL, CallV(Fn("github.com/privacybydesign/irmago", "metaObjectIdentifier", "Root"), -1), StrV("pbdf"), true),
		// an attribute of another scheme is skipped (continue), which is the point of the check
		Skip: []Check{CmpCheck("attribute.Identifier.Root() == \"pbdf\" is false", token.EQL, CallV(Fn("github.com/privacybydesign/irmago", "metaObjectIdentifier", "Root"), -1), StrV("pbdf"), false)},
		Alt: []Check{{Desc: "strict mode off", Pass: IsFalse, Values: func(fn *ssa.Function) []ssa.Value {
			var out []ssa.Value
			for _, prm := range fn.Params {
				if ParamV("strictMode").M(prm) {
					out = append(out, prm)
				}
			}
			return out
		}}}})
	// stated positively: in strict mode the gRPC connection manager is built only on a path on which TLS is enabled (own
	// certificate loaded) — whatever other TLS-related option (offloading, …) is set
	r.Gate(Gate{ID: "C20.tls.connection-manager-needs-tls-or-not-strict", Fn: nc, Effect: CallEffect(Fn("network/transport/grpc", "", "NewGRPCConnectionManager")),
		Check: CallCheck(Fn("core", "TLSConfig", "Enabled"), -1, IsTrue), Alt: []Check{{Desc: "strict mode off", Pass: IsFalse, Values: strictVals}}})
	ac := p.Func("auth", "Auth", "Configure")
	r.Gate(Gate{ID: "C20.irma.scheme-manager", Fn: ac, Effect: SuccessReturn(), Check: CmpCheck("SchemeManager == \"pbdf\"", token.EQL, FieldV("", "SchemeManager"), StrV("pbdf"), true),
		Alt: []Check{Check{Desc: "strict mode off", Pass: IsFalse, Values: strictVals}}})
	no := p.Func("auth/services/notary", "notary", "Configure")
	r.Gate(Gate{ID: "C20.dummy.registered-only-if-not-strict", Fn: no, Effect: InstrEffect("dummy.Dummy constructed", func(in ssa.Instruction) bool {
		al, ok := in.(*ssa.Alloc)
		if !ok {
			return false
		}
		n := NamedOf(al.Type())
		return n != nil && n.Obj().Name() == "Dummy"
	}), Check: Check{Desc: "strict mode off", Pass: IsFalse, Values: strictVals}})
	for _, m := range []string{"VerifyVP", "SigningSessionStatus", "StartSigningSession"} {
		r.Refuse(Refuse{ID: "C20.dummy.method-refuses", Fn: p.Func("auth/services/dummy", "Dummy", m), Cond: strictOn(), Effect: ReturnsNonNil(0)})
	}
	c20JSONLD(r)
	// IRMA production = strict
	c20StructFieldFromFlag(r, "C20.irma.production-from-flag", p.Func("auth/services/notary", "notary", "Configure"), "Config", "Production")

	// --- flag wiring
	c20FlagWiring(r)
	c20Default(r)

	// --- independent of the flag
	ld := p.Func("core", "ServerConfig", "Load")
	for _, f := range []string{"TrustStoreFile", "CertKeyFile", "CertFile"} {
		r.Refuse(Refuse{ID: "C20.legacy." + f, Fn: ld, Cond: CmpCheck("LegacyTLS."+f+" != \"\"", token.EQL, PathV("LegacyTLS", f), StrV(""), false)})
	}
	c20LegacyNotStrictDependent(r, ld)
	c20Secrets(r)
	// the filter itself: the next loader is consulted only for a URL that equals an allow-list entry (no prefix/substring match)
	fl := p.Func("jsonld", "filteredDocumentLoader", "LoadDocument")
	r.Gate(Gate{ID: "C20.jsonld.filter-is-exact-match", Fn: fl, Effect: CallEffect(Callee{Desc: "nextLoader.LoadDocument", M: func(cc *ssa.CallCommon) bool { return cc.IsInvoke() && cc.Method.Name() == "LoadDocument" }}),
		Check: CmpCheck("allowedURL == u", token.EQL, AnyV(), ParamV("u"), true)})
	// the remote-context filter is installed whenever unlisted external calls are not allowed — no further condition
	ncl := p.Func("jsonld", "", "NewContextLoader")
	r.MustReach(MustReach{ID: "C20.jsonld.filter-installed-when-strict", Fn: ncl, SuccessOnly: true,
		Cond:   Check{Desc: "allowUnlistedExternalCalls is false", Pass: IsFalse, Values: func(fn *ssa.Function) []ssa.Value { return paramValues(fn, "allowUnlistedExternalCalls") }},
		Target: Fn("jsonld", "", "NewFilteredLoader")})
	r.ArgIs("C20.url.ip-test-on-hostname", p.Func("core", "", "ParsePublicURLWithScheme"), Fn("std:net/netip", "", "ParseAddr"), 0, OrV(CallV(Fn("std:net/url", "URL", "Hostname"), -1), CallV(Fn("core", "", "lookupHostname"), 0)), 1)
	// endpoints taken from remote metadata are public URLs in strict mode (fix: the s2s token endpoint and the OpenID4VCI credential
	// endpoint were only url.Parse'd, so https://127.0.0.1 was accepted)
	for _, m := range []string{"AccessToken", "VerifiableCredentials"} {
		fn := p.Func("auth/client/iam", "HTTPClient", m)
		r.Gate(Gate{ID: "C20.remote-endpoint.is-public-url", Fn: fn, Effect: CallEffect(Fn("std:net/http", "", "NewRequestWithContext")), Check: ErrCheck(Fn("core", "", "ParsePublicURL"))})
		r.ArgIs("C20.remote-endpoint.is-public-url.strict-flag", fn, Fn("core", "", "ParsePublicURL"), 1, FieldV("HTTPClient", "strictMode"), 1)
	}
	// the strict-mode flag itself cannot be switched off by an empty or unparsable string
	ldf := p.Func("core", "ServerConfig", "Load")
	r.Gate(Gate{ID: "C20.default.string-value-must-be-a-boolean", Fn: ldf, Effect: CallEffect(Fn("core", "", "loadConfigIntoStruct")), Check: ErrCheck(Fn("std:strconv", "", "ParseBool")),
		Alt: []Check{{Desc: "the configured value is not a string", Pass: IsFalse, Values: func(fn *ssa.Function) []ssa.Value {
			var out []ssa.Value
			for _, b := range fn.Blocks {
				for _, in := range b.Instrs {
					if ta, ok := in.(*ssa.TypeAssert); ok && ta.CommaOk && ta.AssertedType.String() == "string" {
						for _, ref := range *ta.Referrers() {
							if ex, isEx := ref.(*ssa.Extract); isEx && ex.Index == 1 {
								out = append(out, ex)
							}
						}
					}
				}
			}
			return out
		}}}})
	// zone-blind IP parsing is not used for the public-URL decision
	r.Own(OwnSpec{ID: "C20.url.no-zone-blind-ip-test", Op: "call net.ParseIP in package core", Sites: func() []Site {
		var out []Site
		for _, s := range p.CallSites(Fn("std:net", "", "ParseIP"), false) {
			if strings.HasPrefix(p.FuncName(s.Fn), "core.") {
				out = append(out, s)
			}
		}
		return out
	}(), Min: 0, Owners: map[string]string{}})
}

func c20ParsePublicURL(r *Report, pu *ssa.Function) {
	rule := "ARG: ParsePublicURL with strict mode on demands https and forbids reserved hosts/IPs: ParsePublicURLWithScheme(input, false, \"https\")"
	key := "C20.url.strict-args"
	if pu == nil {
		r.Lost(key, rule, "ParsePublicURL not found")
		return
	}
	calls := Calls(pu, Fn("core", "", "ParsePublicURLWithScheme"))
	r.Sites += len(calls)
	strictCalls := 0
	for _, ci := range calls {
		allow, _ := ConstBool(CallArg(ci.Common(), 1))
		var schemes []string
		for _, el := range VariadicElems(ci) {
			if s, ok := ConstString(el); ok {
				schemes = append(schemes, s)
			}
		}
		sort.Strings(schemes)
		if !allow {
			strictCalls++
			if len(schemes) != 1 || schemes[0] != "https" {
				r.Bad(key, rule, r.P.Pos(ci.Pos()), fmt.Sprintf("the reserved-refusing call allows schemes %v", schemes))
				return
			}
		}
	}
	if strictCalls != 1 {
		r.Bad(key, rule, r.P.Pos(pu.Pos()), fmt.Sprintf("%d calls with allowReserved=false (expected 1)", strictCalls))
		return
	}
	// the lenient call is reachable only with the flag off
	r.Gate(Gate{ID: "C20.url.lenient-only-if-not-strict", Fn: pu, Check: Check{Desc: "strict mode off", Pass: IsFalse, Values: strictVals},
		Effect: InstrEffect("ParsePublicURLWithScheme(input, true, …)", func(in ssa.Instruction) bool {
			ci, ok := in.(ssa.CallInstruction)
			if !ok || !Fn("core", "", "ParsePublicURLWithScheme").M(ci.Common()) {
				return false
			}
			b, isB := ConstBool(CallArg(ci.Common(), 1))
			return !isB || b
		})})
	r.OK(key, rule, r.P.Pos(pu.Pos()), "strict call: (input, false, \"https\")", true)
}

func c20ServerURL(r *Report) {
	p := r.P
	fn := p.Func("core", "ServerConfig", "ServerURL")
	c20FlagArg(r, "C20.serverurl.flag-passed", fn, Fn("core", "", "ParsePublicURL"), 1)
}

// c20FlagArg: in fn, the idx-th argument of every call to c is a strict-mode value.
func c20FlagArg(r *Report, id string, fn *ssa.Function, c Callee, idx int) {
	rule := fmt.Sprintf("ARG: %s receives the strict flag", c.Desc)
	if fn == nil {
		r.Lost(id, rule, "function not found")
		return
	}
	key := id + " @ " + r.P.FuncName(fn)
	calls := CallsDeep(fn, c)
	r.Sites += len(calls)
	if len(calls) == 0 {
		r.Lost(key, rule, "call not found")
		return
	}
	for _, ci := range calls {
		a := CallArg(ci.Common(), idx)
		if a == nil || !isStrictValue(a) {
			r.Bad(key, rule, r.P.Pos(ci.Pos()), "argument is "+AccessPath(a, 0))
			return
		}
	}
	r.OK(key, rule, r.P.Pos(fn.Pos()), fmt.Sprintf("%d call(s)", len(calls)), true)
}

var reStrictPath = regexp.MustCompile(`(?i)(^|[.(!])(in)?strict_?mode$|Production$`)

func isStrictValue(v ssa.Value) bool {
	if _, ok := v.(*ssa.Const); ok {
		return false
	}
	return reStrictPath.MatchString(AccessPath(v, 0))
}

func c20ClientFlagSet(r *Report) {
	p := r.P
	rule := "ORDER: the HTTP engine assigns client.StrictMode from the server configuration's flag unconditionally (the store dominates every return of configureClient)"
	key := "C20.httpclient.flag-set"
	fn := p.Func("http", "Engine", "configureClient")
	if fn == nil {
		r.Lost(key, rule, "configureClient not found")
		return
	}
	var st *ssa.Store
	for _, b := range fn.Blocks {
		for _, in := range b.Instrs {
			if s, ok := in.(*ssa.Store); ok {
				if g, ok := s.Addr.(*ssa.Global); ok && g.Name() == "StrictMode" {
					st = s
				}
			}
		}
	}
	r.Sites++
	if st == nil {
		r.Bad(key, rule, p.Pos(fn.Pos()), "client.StrictMode is not assigned")
		return
	}
	if !isStrictValue(st.Val) {
		r.Bad(key, rule, p.Pos(st.Pos()), "client.StrictMode is assigned "+AccessPath(st.Val, 0))
		return
	}
	for _, b := range fn.Blocks {
		if ret, ok := b.Instrs[len(b.Instrs)-1].(*ssa.Return); ok && !InstrDominates(st, ret) {
			r.Bad(key, rule, p.Pos(ret.Pos()), "a return of configureClient is reachable without assigning client.StrictMode: the client stays non-strict")
			return
		}
	}
	// configureClient is called unconditionally at the start of Configure
	cf := p.Func("http", "Engine", "Configure")
	calls := Calls(cf, Fn("http", "Engine", "configureClient"))
	if len(calls) != 1 || calls[0].Block() != cf.Blocks[0] {
		r.Bad(key, rule, p.Pos(cf.Pos()), "configureClient is not called unconditionally in Engine.Configure")
		return
	}
	r.OK(key, rule, p.Pos(st.Pos()), "client.StrictMode = serverConfig.Strictmode dominates all exits", true)
}

// c20OutboundClients: http.Client literals / http.Get/Post/DefaultClient only in the listed places.
func c20OutboundClients(r *Report) {
	p := r.P
	var sites []Site
	p.EachInstr(func(fn *ssa.Function, in ssa.Instruction) {
		switch x := in.(type) {
		case *ssa.Alloc:
			if n := NamedOf(x.Type()); n != nil && n.Obj().Pkg() != nil && n.Obj().Pkg().Path() == "net/http" && n.Obj().Name() == "Client" {
				sites = append(sites, Site{Fn: fn, Instr: in, Pos: in.Pos()})
			}
		case ssa.CallInstruction:
			if f := x.Common().StaticCallee(); f != nil && f.Pkg != nil && f.Pkg.Pkg.Path() == "net/http" && f.Signature.Recv() == nil {
				switch f.Name() {
				case "Get", "Post", "PostForm", "Head":
					sites = append(sites, Site{Fn: fn, Instr: in, Pos: in.Pos()})
				}
			}
		case *ssa.UnOp:
			if g, ok := x.X.(*ssa.Global); ok && g.Pkg != nil && g.Pkg.Pkg.Path() == "net/http" && g.Name() == "DefaultClient" {
				sites = append(sites, Site{Fn: fn, Instr: in, Pos: in.Pos()})
			}
		}
	})
	r.Own(OwnSpec{ID: "C20.outbound.clients", Op: "construct or use a raw net/http client", Sites: sites, Min: 3, Classes: []string{"prod"}, Owners: map[string]string{
		"http/client.New":                        "the strict client wraps it",
		"jsonld.NewContextLoader":                "the JSON-LD library needs an *http.Client: its Transport is remoteContextTransport, which refuses non-HTTPS requests in strict mode on every hop (C20.jsonld.remote-context-*)",
		"http/client.NewWithCache":               "the strict client wraps it",
		"http/client.NewWithTLSConfig":           "the strict client wraps it",
		"core.CreateHTTPInternalClient":          "CLI client for the node's own internal API",
		"core.MustCreateInternalHTTPClient":      "CLI client for the node's own internal API",
		"pki.(*denylistImpl).download":           "denylist over the configured URL",
		"(*pki.denylistImpl).download":           "denylist over the configured URL",
		"(*pki.validator).syncCRLs":              "CRL distribution points are http by specification",
		"(*pki.validator).updateCRL":             "CRL distribution points are http by specification",
		"pki.newValidatorWithHTTPClient":         "CRL distribution points are http by specification",
		"pki.newValidator":                       "CRL distribution points are http by specification",
		"crypto/storage/external.NewAPIClient":   "operator-configured secret store API",
		"(*crypto/storage/external.APIClient).*": "operator-configured secret store API",
		"crypto/storage/external.*":              "operator-configured secret store API",
		"crypto/storage/vault.*":                 "Vault SDK client",
		"crypto/storage/azure.*":                 "Azure SDK client",
		"pki.*":                                  "CRL / denylist fetching",
		"core.*":                                 "CLI client for the node's own internal API",
		"core/status.Cmd":                        "CLI status command against the node's own address",
	}})
}

// c20IAMClientURLs: in auth/client/iam every remote URL is validated with the strict flag before a request is built.
func c20IAMClientURLs(r *Report) {
	p := r.P
	rule := "ARG: the IAM client validates remote URLs with core.ParsePublicURL / IssuerIdToWellKnown under its own strict flag"
	n := 0
	for _, c := range []struct {
		callee Callee
		idx    int
	}{{Fn("core", "", "ParsePublicURL"), 1}, {Fn("auth/oauth", "", "IssuerIdToWellKnown"), 2}} {
		for _, s := range p.CallSites(c.callee, false) {
			if !strings.HasPrefix(funcPkg(s.Fn), ModPath+"/auth/client/iam") || p.FileClass(p.FuncPos(s.Fn)) != "prod" {
				continue
			}
			n++
			a := CallArg(s.Instr.(ssa.CallInstruction).Common(), c.idx)
			if !isStrictValue(a) {
				r.Bad("C20.iamclient.urls @ "+p.FuncName(Outer(s.Fn)), rule, p.Pos(s.Pos), "strict argument is "+AccessPath(a, 0))
			}
		}
	}
	r.Sites += n
	if n < 8 {
		r.Lost("C20.iamclient.urls", rule, fmt.Sprintf("%d validation sites found", n))
		return
	}
	r.OK("C20.iamclient.urls", rule, "", fmt.Sprintf("%d URL validations carry the client's strict flag", n), true)
}

func c20JSONLD(r *Report) {
	p := r.P
	rule := "ARG: the JSON-LD context loader allows remote contexts exactly when strict mode is off: NewContextLoader(!Strictmode, …)"
	key := "C20.jsonld.remote-contexts"
	fn := p.Func("jsonld", "jsonld", "Configure")
	if fn == nil {
		r.Lost(key, rule, "jsonld.Configure not found")
		return
	}
	calls := Calls(fn, Fn("jsonld", "", "NewContextLoader"))
	r.Sites += len(calls)
	if len(calls) != 1 {
		r.Lost(key, rule, "NewContextLoader call not found")
		return
	}
	a := CallArg(calls[0].Common(), 0)
	u, ok := a.(*ssa.UnOp)
	if !ok || u.Op != token.NOT || !isStrictValue(u.X) {
		r.Bad(key, rule, p.Pos(calls[0].Pos()), "allowUnlistedExternalCalls argument is "+AccessPath(a, 0))
		return
	}
	r.OK(key, rule, p.Pos(calls[0].Pos()), AccessPath(a, 0), true)
}

// c20StructFieldFromFlag: in fn, the literal of struct typ sets field from a strict-mode value.
func c20StructFieldFromFlag(r *Report, id string, fn *ssa.Function, typ, field string) {
	rule := fmt.Sprintf("ARG: %s.%s is set from the strict flag", typ, field)
	if fn == nil {
		r.Lost(id, rule, "function not found")
		return
	}
	for _, b := range fn.Blocks {
		for _, in := range b.Instrs {
			st, ok := in.(*ssa.Store)
			if !ok {
				continue
			}
			fa, ok := st.Addr.(*ssa.FieldAddr)
			if !ok {
				continue
			}
			n := NamedOf(fa.X.Type())
			if n == nil || n.Obj().Name() != typ || fieldNameAt(fa.X.Type(), fa.Field) != field {
				continue
			}
			r.Sites++
			if isStrictValue(st.Val) {
				r.OK(id, rule, r.P.Pos(st.Pos()), AccessPath(st.Val, 0), true)
			} else {
				r.Bad(id, rule, r.P.Pos(st.Pos()), "value is "+AccessPath(st.Val, 0))
			}
			return
		}
	}
	r.Bad(id, rule, r.P.Pos(fn.Pos()), fmt.Sprintf("%s.%s is never set: it stays at its zero value", typ, field))
}

// c20FlagWiring: every struct field / package variable with a strict-mode name is assigned from a strict-mode value
// somewhere in production code (a flag that is read but never written is a dead refusal).
func c20FlagWiring(r *Report) {
	p := r.P
	rule := "DEP: every strict-mode field or variable that is read is also assigned from the configuration's strict flag (never left at its zero value)"
	type slot struct{ name, pos string }
	reads := map[string]string{}
	writes := map[string][]string{}
	p.EachInstr(func(fn *ssa.Function, in ssa.Instruction) {
		cls := p.FileClass(p.FuncPos(fn))
		if cls != "prod" {
			return
		}
		switch x := in.(type) {
		case *ssa.FieldAddr:
			name := fieldNameAt(x.X.Type(), x.Field)
			if !reStrict.MatchString(name) {
				return
			}
			n := NamedOf(x.X.Type())
			if n == nil || n.Obj().Pkg() == nil || !strings.HasPrefix(n.Obj().Pkg().Path(), ModPath) {
				return
			}
			k := strings.TrimPrefix(n.Obj().Pkg().Path(), ModPath+"/") + "." + n.Obj().Name() + "." + name
			isWrite := false
			for _, ref := range *x.Referrers() {
				if st, ok := ref.(*ssa.Store); ok && st.Addr == x {
					isWrite = true
					writes[k] = append(writes[k], AccessPath(st.Val, 0))
					// the flag handed down through a (possibly negated) bool parameter: look at what the callers pass; an
					// even number of negations between the caller's value and the slot keeps the flag's meaning
					val, neg := st.Val, 0
					if u, isU := val.(*ssa.UnOp); isU && u.Op == token.NOT {
						val, neg = u.X, 1
					}
					if prm, isP := val.(*ssa.Parameter); isP {
						for idx, fp := range fn.Params {
							if fp != prm {
								continue
							}
							for _, cs := range p.CallSites(SSAFn(fn, fn.Name()), false) {
								cc := cs.Instr.(ssa.CallInstruction).Common()
								if idx >= len(cc.Args) {
									continue
								}
								a, n := cc.Args[idx], neg
								if u, isU := a.(*ssa.UnOp); isU && u.Op == token.NOT {
									a, n = u.X, n+1
								}
								if n%2 == 0 {
									writes[k] = append(writes[k], AccessPath(a, 0))
								}
							}
						}
					}
				}
			}
			if !isWrite {
				reads[k] = p.Pos(x.Pos())
			}
		case *ssa.Field:
			name := fieldNameAt(x.X.Type(), x.Field)
			if reStrict.MatchString(name) {
				if n := NamedOf(x.X.Type()); n != nil && n.Obj().Pkg() != nil && strings.HasPrefix(n.Obj().Pkg().Path(), ModPath) {
					k := strings.TrimPrefix(n.Obj().Pkg().Path(), ModPath+"/") + "." + n.Obj().Name() + "." + name
					reads[k] = p.Pos(x.Pos())
				}
			}
		case *ssa.Store:
			if g, ok := x.Addr.(*ssa.Global); ok && reStrict.MatchString(g.Name()) && g.Pkg != nil {
				k := strings.TrimPrefix(g.Pkg.Pkg.Path(), ModPath+"/") + "." + g.Name()
				writes[k] = append(writes[k], AccessPath(x.Val, 0))
			}
		case *ssa.UnOp:
			if g, ok := x.X.(*ssa.Global); ok && x.Op == token.MUL && reStrict.MatchString(g.Name()) && g.Pkg != nil && strings.HasPrefix(g.Pkg.Pkg.Path(), ModPath) {
				k := strings.TrimPrefix(g.Pkg.Pkg.Path(), ModPath+"/") + "." + g.Name()
				reads[k] = p.Pos(x.Pos())
			}
		}
	})
	// core.ServerConfig.Strictmode is the source: written by the configuration loader (reflection) and the default literal
	exceptions := map[string]string{
		"core.ServerConfig.Strictmode":           "the source of the flag: filled by koanf from file/env/flags and by the default literal",
		"auth/services/dummy.Dummy.InStrictMode": "never set in production by design: the dummy means are constructed only on the strict-mode-off branch (C20.dummy.registered-only-if-not-strict)",
	}
	var keys []string
	for k := range reads {
		keys = append(keys, k)
	}
	sort.Strings(keys)
	r.Sites += len(keys)
	if len(keys) < 8 {
		r.Lost("C20.flag-wiring", rule, fmt.Sprintf("%d strict-mode slots found", len(keys)))
		return
	}
	for _, k := range keys {
		key := "C20.flag-wiring @ " + k
		if why, ok := exceptions[k]; ok {
			r.OK(key, rule, reads[k], "listed: "+why, false)
			continue
		}
		ws := writes[k]
		okW := false
		for _, w := range ws {
			if reStrictPath.MatchString(w) {
				okW = true
			}
		}
		if okW {
			r.OK(key, rule, reads[k], fmt.Sprintf("assigned from %v", uniq(sortedCopy(ws))), true)
		} else {
			r.Bad(key, rule, reads[k], fmt.Sprintf("%s is read at %s but never assigned from the strict flag (writes: %v): the refusal it guards is dead", k, reads[k], ws))
		}
	}
}

func sortedCopy(s []string) []string {
	out := append([]string{}, s...)
	sort.Strings(out)
	return out
}

func c20Default(r *Report) {
	p := r.P
	rule := "TABLE: strict mode is on by default (NewServerConfig sets Strictmode: true)"
	key := "C20.default-strict"
	fn := p.Func("core", "", "NewServerConfig")
	if fn == nil {
		r.Lost(key, rule, "NewServerConfig not found")
		return
	}
	for _, b := range fn.Blocks {
		for _, in := range b.Instrs {
			if st, ok := in.(*ssa.Store); ok {
				if fa, ok := st.Addr.(*ssa.FieldAddr); ok && fieldNameAt(fa.X.Type(), fa.Field) == "Strictmode" {
					r.Sites++
					if bv, isB := ConstBool(st.Val); isB && bv {
						r.OK(key, rule, p.Pos(st.Pos()), "Strictmode: true", false)
					} else {
						r.Bad(key, rule, p.Pos(st.Pos()), "default is not the constant true")
					}
					return
				}
			}
		}
	}
	r.Bad(key, rule, p.Pos(fn.Pos()), "the default configuration does not set Strictmode (zero value: off)")
	// the command-line flag default
}

func c20LegacyNotStrictDependent(r *Report, ld *ssa.Function) {
	rule := "DEP: the moved-keys refusal does not depend on the strict flag"
	key := "C20.legacy.independent-of-strict"
	if ld == nil {
		r.Lost(key, rule, "ServerConfig.Load not found")
		return
	}
	// no strict-mode value is read in Load before the refusal
	n := len(strictVals(ld))
	r.Sites++
	if n > 0 {
		r.Bad(key, rule, r.P.Pos(ld.Pos()), "ServerConfig.Load reads the strict flag")
		return
	}
	r.OK(key, rule, r.P.Pos(ld.Pos()), "no strict-mode read in Load", false)
}

// c20Secrets: secrets on the command line: the visitor sets a sticky error (every store to err is a non-nil error) for
// changed flags with a secret suffix, all flags are visited, and the error gates the load.
func c20Secrets(r *Report) {
	p := r.P
	rule := "GATE: a changed command-line flag ending in token/password stops start-up: the visitor's error is sticky (never overwritten by a later flag) and gates the flag load"
	key := "C20.secrets"
	fn := p.Func("core", "", "loadFromFlagSet")
	if fn == nil {
		r.Lost(key, rule, "loadFromFlagSet not found")
		return
	}
	visits := Calls(fn, Fn("github.com/spf13/pflag", "FlagSet", "VisitAll"))
	loadFn := fn
	if len(visits) == 0 {
		// the scan may live in a helper of the same package whose error gates the load
		if near := p.CallsNear(fn, Fn("github.com/spf13/pflag", "FlagSet", "VisitAll")); len(near) == 1 {
			visits = near
			fn = near[0].Parent()
		}
	}
	r.Sites += len(visits)
	if len(visits) != 1 {
		r.Bad(key, rule, p.Pos(fn.Pos()), "flags.VisitAll is not used: Visit only sees changed flags in lexical order and a custom loop may stop early")
		return
	}
	cl := closureArgOf(visits[0], 0)
	if cl == nil {
		r.Lost(key, rule, "visitor closure not found")
		return
	}
	n := 0
	for _, b := range cl.Blocks {
		for _, in := range b.Instrs {
			st, ok := in.(*ssa.Store)
			if !ok {
				continue
			}
			if fv, ok := st.Addr.(*ssa.FreeVar); ok && fv.Type().String() == "*error" {
				n++
				if !valueNonNilErr(p, st.Val) {
					r.Bad(key, rule, p.Pos(st.Pos()), "the visitor assigns a possibly-nil value to err: a later (non-secret) flag can erase the refusal")
					return
				}
			}
		}
	}
	if n == 0 {
		r.Bad(key, rule, p.Pos(cl.Pos()), "the visitor never records an error")
		return
	}
	suff := map[string]bool{}
	for _, ci := range Calls(cl, Fn("std:strings", "", "HasSuffix")) {
		if s, ok := ConstString(CallArg(ci.Common(), 1)); ok {
			suff[s] = true
		}
	}
	if !suff["token"] || !suff["password"] {
		r.Bad(key, rule, p.Pos(cl.Pos()), fmt.Sprintf("secret suffixes checked: %v", suff))
		return
	}
	r.OK(key, rule, p.Pos(cl.Pos()), fmt.Sprintf("%d sticky error store(s); suffixes token,password", n), true)
	if loadFn == fn {
		r.Gate(Gate{ID: "C20.secrets.error-gates-load", Fn: fn, Effect: CallEffect(Fn("github.com/knadh/koanf/v2", "Koanf", "Load")), Check: Check{Desc: "err == nil after the visit", Pass: ErrNil, Values: CellLoadsStoredIn(cl, "error")}})
	} else {
		// helper form: the helper succeeds only if the sticky error is nil, and its error gates the load
		r.Gate(Gate{ID: "C20.secrets.error-gates-load", Fn: loadFn, Effect: CallEffect(Fn("github.com/knadh/koanf/v2", "Koanf", "Load")), Check: ErrCheck(SSAFn(fn, p.FuncName(fn)))})
		r.Gate(Gate{ID: "C20.secrets.helper-returns-the-sticky-error", Fn: fn, Effect: SuccessReturn(), Check: Check{Desc: "err == nil after the visit", Pass: ErrNil, Values: CellLoadsStoredIn(cl, "error")}})
	}
	r.Gate(Gate{ID: "C20.secrets.only-changed-flags", Fn: cl, Effect: InstrEffect("err = …", func(in ssa.Instruction) bool {
		st, ok := in.(*ssa.Store)
		if !ok {
			return false
		}
		fv, ok := st.Addr.(*ssa.FreeVar)
		return ok && fv.Type().String() == "*error"
	}), Check: Check{Desc: "flag.Changed", Pass: IsTrue, Values: fieldLoads("Flag", "Changed")}})
}

func valueNonNilErr(p *Prog, v ssa.Value) bool {
	switch x := v.(type) {
	case *ssa.MakeInterface:
		return true
	case *ssa.Call:
		if f := x.Common().StaticCallee(); f != nil && f.Pkg != nil {
			full := f.Pkg.Pkg.Path() + "." + f.Name()
			return full == "fmt.Errorf" || full == "errors.New"
		}
	}
	return false
}

// paramValues: the parameter named name (and loads of its spill cell, when a closure captures it).
func paramValues(fn *ssa.Function, name string) []ssa.Value {
	var out []ssa.Value
	for _, p := range fn.Params {
		if p.Name() != name {
			continue
		}
		out = append(out, p)
		for _, ref := range *p.Referrers() {
			if st, ok := ref.(*ssa.Store); ok {
				if a, ok := st.Addr.(*ssa.Alloc); ok {
					for _, r2 := range *a.Referrers() {
						if ld, ok := r2.(*ssa.UnOp); ok && ld.Op == token.MUL {
							out = append(out, ld)
						}
					}
				}
			}
		}
	}
	return out
}
