package props

import (
	"fmt"
	"go/token"
	"go/types"
	"strings"

	"golang.org/x/tools/go/ssa"

	. "verifcheck/an"
)

// Rules added after the fifth (blind) seeding round; each comment names the seed it answers.

const stoabsPkg5 = "github.com/nuts-foundation/go-stoabs"

// allReturnsConst: every return of fn has the constant `want` (bool) / nil as its idx-th result.
func allReturnsNil(r *Report, id, rule string, fn *ssa.Function, why string) {
	if fn == nil {
		r.Lost(id, rule, "function not found")
		return
	}
	n := 0
	for _, f := range []*ssa.Function{fn} {
		for _, b := range f.Blocks {
			ret, ok := b.Instrs[len(b.Instrs)-1].(*ssa.Return)
			if !ok || len(ret.Results) == 0 {
				continue
			}
			n++
			if !IsNilConst(ret.Results[len(ret.Results)-1]) {
				r.Bad(id, rule, r.P.Pos(ret.Pos()), why)
				return
			}
		}
	}
	r.Sites += n
	r.OK(id, rule, r.P.Pos(fn.Pos()), fmt.Sprintf("%d return(s)", n), true)
}

func c04Seed5(r *Report) {
	p := r.P
	// C04-h: the dispatcher keys its servers by the address string; Configure's "the two addresses differ / do not overlap"
	// tests look at the configured strings, so Bind must key by exactly the string it was given (a normalised copy aliases
	// two addresses that passed those tests)
	bind := p.Func("http", "MultiEcho", "Bind")
	rule := "ARG: MultiEcho.Bind stores and looks up the address exactly as given (the parameter, not a normalised copy)"
	key := "C04.binds.address-keyed-as-given"
	if bind == nil {
		r.Lost(key, rule, "Bind not found")
		return
	}
	n, bad := 0, ""
	for _, b := range bind.Blocks {
		for _, in := range b.Instrs {
			switch x := in.(type) {
			case *ssa.MapUpdate:
				f := fieldOfLoad(x.Map)
				if f == "binds" {
					n++
					if !IsParamOrItsCell(x.Value, "address") {
						bad = p.Pos(x.Pos())
					}
				}
				if f == "interfaces" {
					n++
					if !IsParamOrItsCell(x.Key, "address") {
						bad = p.Pos(x.Pos())
					}
				}
			case *ssa.Lookup:
				if fieldOfLoad(x.X) == "interfaces" {
					n++
					if !IsParamOrItsCell(x.Index, "address") {
						bad = p.Pos(x.Pos())
					}
				}
			}
		}
	}
	r.Sites += n
	switch {
	case n < 3:
		r.Lost(key, rule, fmt.Sprintf("%d map accesses found (expected >= 3)", n))
	case bad != "":
		r.Bad(key, rule, bad, "the address is rewritten before it is used as key: two configured addresses that differ as strings can end up on one server")
	default:
		r.OK(key, rule, p.Pos(bind.Pos()), "", true)
	}
}

// fieldOfLoad: v is a load of a struct field; its name.
func fieldOfLoad(v ssa.Value) string {
	u, ok := v.(*ssa.UnOp)
	if !ok || u.Op != token.MUL {
		if f, isF := v.(*ssa.Field); isF {
			return fieldName(f.X.Type(), f.Field)
		}
		return ""
	}
	fa, ok := u.X.(*ssa.FieldAddr)
	if !ok {
		return ""
	}
	return fieldName(fa.X.Type(), fa.Field)
}

func c03Seed5(r *Report) {
	p := r.P
	// C03-h: the Azure backend signs with the key VERSION recorded for the kid: no lookup falls back to "current version"
	// (the empty version) on its own — only a caller that was given no version passes none
	gk := Fn("crypto/storage/azure", "Keyvault", "getPrivateKey")
	r.ArgIsEverywhere("C03.azure.no-fallback-to-the-current-version", gk, 2, VPat{Desc: "not the constant \"\" (Azure reads the empty version as 'current')", M: func(v ssa.Value) bool {
		s, ok := ConstString(StripConv(v))
		return !(ok && s == "")
	}}, 1)
	// C03-g: the external key-store client never logs what the storage server answered: the answer to a lookup IS the private key
	const ext = "crypto/storage/external"
	rule := "OWN: no logging call in crypto/storage/external takes a value derived from a storage-server response body (Body / Secret), directly or through a helper"
	key := "C03.external.response-body-never-logged"
	n := 0
	var bad []string
	isLogCall := func(cc *ssa.CallCommon) bool {
		f := cc.StaticCallee()
		if f == nil || f.Pkg == nil {
			return false
		}
		path := f.Pkg.Pkg.Path()
		return strings.Contains(path, "sirupsen/logrus") || path == "log" || path == "fmt" && strings.HasPrefix(f.Name(), "Print")
	}
	var tainted func(v ssa.Value, params map[*ssa.Parameter]bool, d int) bool
	tainted = func(v ssa.Value, params map[*ssa.Parameter]bool, d int) bool {
		if d > 8 || v == nil {
			return false
		}
		switch x := v.(type) {
		case *ssa.Parameter:
			return params[x]
		case *ssa.FieldAddr:
			nm := fieldName(x.X.Type(), x.Field)
			return nm == "Body" || nm == "Secret"
		case *ssa.Field:
			nm := fieldName(x.X.Type(), x.Field)
			return nm == "Body" || nm == "Secret"
		case *ssa.UnOp:
			return tainted(x.X, params, d+1)
		case *ssa.Convert:
			return tainted(x.X, params, d+1)
		case *ssa.ChangeType:
			return tainted(x.X, params, d+1)
		case *ssa.MakeInterface:
			return tainted(x.X, params, d+1)
		case *ssa.Slice:
			return tainted(x.X, params, d+1)
		case *ssa.BinOp:
			return tainted(x.X, params, d+1) || tainted(x.Y, params, d+1)
		case *ssa.Phi:
			for _, e := range x.Edges {
				if tainted(e, params, d+1) {
					return true
				}
			}
		case *ssa.Alloc:
			for _, ref := range *x.Referrers() {
				if st, ok := ref.(*ssa.Store); ok && st.Addr == ssa.Value(x) && tainted(st.Val, params, d+1) {
					return true
				}
			}
		}
		return false
	}
	var scan func(fn *ssa.Function, params map[*ssa.Parameter]bool, depth int)
	scan = func(fn *ssa.Function, params map[*ssa.Parameter]bool, depth int) {
		for _, b := range fn.Blocks {
			for _, in := range b.Instrs {
				ci, ok := in.(ssa.CallInstruction)
				if !ok {
					continue
				}
				cc := ci.Common()
				args := append([]ssa.Value{}, cc.Args...)
				args = append(args, VariadicElems(ci)...)
				if isLogCall(cc) {
					n++
					for _, a := range args {
						if tainted(a, params, 0) {
							bad = append(bad, p.Pos(ci.Pos()))
						}
					}
					continue
				}
				callee := cc.StaticCallee()
				if callee == nil || depth >= 2 || callee.Pkg == nil || !strings.HasSuffix(callee.Pkg.Pkg.Path(), ext) || callee.Blocks == nil {
					continue
				}
				sub := map[*ssa.Parameter]bool{}
				for i, a := range cc.Args {
					if i < len(callee.Params) && tainted(a, params, 0) {
						sub[callee.Params[i]] = true
					}
				}
				if len(sub) > 0 {
					scan(callee, sub, depth+1)
				}
			}
		}
	}
	fns := 0
	for _, fn := range p.Funcs {
		if fn.Pkg == nil || !strings.HasSuffix(fn.Pkg.Pkg.Path(), ext) || p.FileClass(p.FuncPos(fn)) != "prod" {
			continue
		}
		fns++
		scan(fn, map[*ssa.Parameter]bool{}, 0)
	}
	r.Sites += n + fns
	switch {
	case fns < 4:
		r.Lost(key, rule, fmt.Sprintf("%d functions of the package found", fns))
	case len(bad) > 0:
		r.Bad(key, rule, bad[0], "a storage-server response body reaches a log line: the answer to a key lookup is the private key in PEM")
	default:
		r.OK(key, rule, "", fmt.Sprintf("%d functions, %d logging calls", fns, n), true)
	}
}

func c05Seed5(r *Report) {
	p := r.P
	// C05-h: a DPoP proof is accepted for [iat - skew, iat + max age]; its jti is remembered for a fixed time from first use.
	// The parse that validates the time claims therefore tolerates no clock skew of its own (the age bound in
	// ValidateDPoPProof is the only window, C05.dpop.proof-age-*)
	dp := p.Func("crypto/dpop", "", "Parse")
	rule := "ARG: dpop.Parse hands jwt.ParseString no WithAcceptableSkew option (a proof dated in the future would outlive the memory of its jti)"
	key := "C05.dpop.no-skew-beyond-the-jti-retention"
	if dp == nil {
		r.Lost(key, rule, "dpop.Parse not found")
		return
	}
	const jwtPkg = "github.com/lestrrat-go/jwx/v2/jwt"
	n, bad := 0, ""
	for _, ci := range Calls(dp, Fn(jwtPkg, "", "ParseString")) {
		n++
		for _, el := range VariadicElems(ci) {
			if call, ok := StripConv(el).(*ssa.Call); ok && Fn(jwtPkg, "", "WithAcceptableSkew").M(call.Common()) {
				bad = p.Pos(call.Pos())
			}
		}
	}
	r.Sites += n
	switch {
	case n == 0:
		r.Lost(key, rule, "no jwt.ParseString call")
	case bad != "":
		r.Bad(key, rule, bad, "clock skew accepted by the parser widens the acceptance window beyond what the jti store remembers")
	default:
		r.OK(key, rule, p.Pos(dp.Pos()), "", true)
	}
}

func c08Seed5(r *Report) {
	p := r.P
	// C08-h: every rolled-back admission reloads the in-memory state, unconditionally (the trees are updated inside the
	// transaction: "nothing was touched yet" is not something the callback can know)
	add := p.Func("network/dag", "state", "Add")
	found := false
	if add != nil {
		for _, f := range WithAnons(add) {
			if f == add || len(Calls(f, Fn("network/dag", "state", "loadState"))) == 0 {
				continue
			}
			found = true
			r.EveryPath("C08.rollback.reload-is-unconditional", f, "call of state.loadState", func(in ssa.Instruction) bool {
				c, ok := in.(ssa.CallInstruction)
				return ok && Fn("network/dag", "state", "loadState").M(c.Common())
			})
		}
	}
	if !found {
		r.Lost("C08.rollback.reload-is-unconditional", "ORDER", "the OnRollback callback of state.Add was not found")
	}
	// C08-g: the repair visits every page: the cursor wraps only when the page's end lies BEYOND the highest clock
	// (lcEnd is exclusive; when the highest clock is the first clock of the next page that page still has to be visited)
	cp := p.Func("network/dag", "xorTreeRepair", "checkPage")
	wrap := InstrEffect("currentPage = 0", func(in ssa.Instruction) bool {
		st, ok := in.(*ssa.Store)
		if !ok {
			return false
		}
		fa, isFA := st.Addr.(*ssa.FieldAddr)
		if !isFA || fieldName(fa.X.Type(), fa.Field) != "currentPage" {
			return false
		}
		k, isK := ConstInt(st.Val)
		return isK && k == 0
	})
	r.Gate(Gate{ID: "C08.repair.cursor-wraps-only-beyond-the-highest-clock", Fn: cp, Effect: wrap,
		Check: CmpCheck("currentLC < lcEnd (strictly)", token.LSS, CallV(AnyOf(Fn("std:sync/atomic", "Uint32", "Load"), Fn("std:sync/atomic", "Uint64", "Load"), Fn("std:sync/atomic", "Int64", "Load")), -1), AnyV(), true)})
}

func c09Seed5(r *Report) {
	p := r.P
	// C09-g: whether a relationship EMBEDS its verification method is decided by how it is written (a reference marshals as
	// a string), not by whether a method with that id happens to be listed: an embedded method re-using a listed id must
	// not pass as a reference
	ie := p.Func("vdr/didnuts", "", "isEmbeddedVerificationMethod")
	r.ArgIs("C09.vm.embedded-is-decided-by-the-marshalled-form", ie, Fn("std:encoding/json", "", "Marshal"), 0, DerivedOrIface(ParamV("relationship")), 1)
	rule := "ARG: isEmbeddedVerificationMethod compares the first byte of the marshalled relationship with '\"'"
	key := "C09.vm.embedded-is-decided-by-the-marshalled-form.string-is-a-reference"
	if ie == nil {
		r.Lost(key, rule, "isEmbeddedVerificationMethod not found")
	} else {
		n := 0
		for _, b := range ie.Blocks {
			for _, in := range b.Instrs {
				if bin, ok := in.(*ssa.BinOp); ok && (bin.Op == token.EQL || bin.Op == token.NEQ) {
					if k, isK := ConstInt(bin.Y); isK && k == '"' {
						n++
					}
					if k, isK := ConstInt(bin.X); isK && k == '"' {
						n++
					}
				}
			}
		}
		r.Sites += n
		if n == 0 {
			r.Bad(key, rule, p.Pos(ie.Pos()), "no such comparison")
		} else {
			r.OK(key, rule, p.Pos(ie.Pos()), "", true)
		}
	}
	// C09-h: the controllers of a document are the documents its controller entries name — not THEIR controllers: what
	// resolveControllers collects is the document itself or a document it resolved for one of the entries, one at a time
	rc := p.Func("vdr/didnuts", "", "resolveControllers")
	rule = "ARG: every element resolveControllers appends to its result is the document itself or the document resolved for one controller entry (no spread of another list, no nested controller lookup)"
	key = "C09.controllers.only-the-named-controllers"
	if rc == nil {
		r.Lost(key, rule, "resolveControllers not found")
		return
	}
	n, bad := 0, ""
	for _, b := range rc.Blocks {
		for _, in := range b.Instrs {
			c, ok := in.(*ssa.Call)
			if !ok {
				continue
			}
			bi, isB := c.Call.Value.(*ssa.Builtin)
			if !isB || bi.Name() != "append" || len(c.Call.Args) != 2 || !strings.HasSuffix(c.Type().String(), "did.Document") {
				continue
			}
			n++
			sl, isSl := c.Call.Args[1].(*ssa.Slice)
			if !isSl {
				bad = p.Pos(c.Pos())
				continue
			}
			al, isAl := sl.X.(*ssa.Alloc)
			if !isAl {
				bad = p.Pos(c.Pos())
				continue
			}
			for _, ref := range *al.Referrers() {
				ia, isIA := ref.(*ssa.IndexAddr)
				if !isIA {
					continue
				}
				for _, r2 := range *ia.Referrers() {
					st, isSt := r2.(*ssa.Store)
					if !isSt {
						continue
					}
					v := st.Val
					okV := IsParamOrItsCell(v, "doc")
					if u, isU := v.(*ssa.UnOp); isU && u.Op == token.MUL {
						if CallV(Fn("vdr/didnuts", "", "resolve"), 0).M(u.X) || IsParamOrItsCell(u.X, "doc") {
							okV = true
						}
					}
					if !okV {
						bad = p.Pos(st.Pos())
					}
				}
			}
		}
	}
	if self := Calls(rc, Fn("vdr/didnuts", "", "resolveControllers")); len(self) > 0 {
		bad = p.Pos(self[0].Pos())
	}
	r.Sites += n
	switch {
	case n < 2:
		r.Lost(key, rule, fmt.Sprintf("%d appends found", n))
	case bad != "":
		r.Bad(key, rule, bad, "a controller's own controllers are returned as controllers of the document: an update signed by a key two levels up is authorised")
	default:
		r.OK(key, rule, p.Pos(rc.Pos()), fmt.Sprintf("%d appends", n), true)
	}
}

func c10Seed5(r *Report) {
	p := r.P
	const ds = "vdr/didnuts/didstore"
	put := p.FnOrImpl(stoabsPkg5, "Writer", "Put")
	// C10-g: every conflicted version that is applied has its merged document stored (it is not a transaction payload):
	// whichever order the events arrive in, each version a reader can be pointed at (by hash, time, source transaction) exists
	ae := p.Func(ds, "", "applyEvent")
	r.MustReach(MustReach{ID: "C10.write.conflicted-version-is-stored", Fn: ae, SuccessOnly: true,
		Cond: CallCheck(Fn(ds, "documentMetadata", "isConflicted"), 0, IsTrue), Target: put})
	// C10-h: writeDocument records the transaction -> payload index for EVERY transaction, also one whose payload is stored
	// already (two transactions can carry the same document)
	wd := p.Func(ds, "", "writeDocument")
	r.Gate(Gate{ID: "C10.write.every-transaction-is-indexed", Fn: wd, Effect: SuccessReturn(), Check: Check{Desc: "Put on the transaction index shelf err == nil", Call: &put, Result: -1, Pass: ErrNil, NoLift: true,
		Filter: func(ci ssa.CallInstruction) bool {
			recv := CallArg(ci.Common(), -1)
			c, ok := recv.(*ssa.Call)
			if !ok {
				return false
			}
			for _, a := range c.Call.Args {
				if s, isS := ConstString(StripConv(a)); isS && s != "" {
					v, _ := p.ConstValue(ds, "transactionIndexShelf")
					return strings.Trim(v, "\"") == s
				}
			}
			return false
		}}})
}

func c11Seed5(r *Report) {
	p := r.P
	const rev = "vcr/revocation"
	// C11-g: the node's own (managed) status lists are never refreshed from the network: the renewal is reachable only for
	// a list that is not managed (or when nothing is stored yet)
	sl := p.Func(rev, "StatusList2021", "statusList")
	r.Gate(Gate{ID: "C11.status.managed-list-is-never-downloaded", Fn: sl, Effect: CallEffect(Fn(rev, "StatusList2021", "update")),
		Check: CallCheck(Fn(rev, "StatusList2021", "isManaged"), 0, IsFalse),
		Alt:   []Check{CallCheck(Fn(rev, "StatusList2021", "loadCredential"), -1, NonNil)}})
}

func c12Seed5(r *Report) {
	p := r.P
	const pePkg = "vcr/pe"
	// C12-g: a filter matches only a value of the filter's OWN type: every "matches" verdict of matchFilter passes a
	// comparison of filter.Type with the JSON type of the value (or comes from the recursion on an element / enum value)
	mf := p.Func(pePkg, "", "matchFilter")
	ft := FieldV("Filter", "Type")
	typeIs := func(t string) Check {
		return CmpCheck("filter.Type == \""+t+"\"", token.EQL, ft, StrV(t), true)
	}
	r.Gate(Gate{ID: "C12.filter.value-is-of-the-filters-type", Fn: mf, Effect: ReturnsConstBoolVal(0, true), Check: typeIs("string"),
		Alt: []Check{typeIs("number"), typeIs("boolean"), typeIs("array"), CallCheck(Fn(pePkg, "", "matchFilter"), 0, IsTrue)}})
	// C12-h: the credentials of a selection are unsorted: removing duplicates compares every element with every kept one;
	// slices.Compact / CompactFunc only look at neighbours
	var sites []Site
	for _, pk := range []string{pePkg, "discovery", "vcr/holder"} {
		for _, fn := range p.Funcs {
			if fn.Pkg == nil || !strings.HasSuffix(fn.Pkg.Pkg.Path(), "/"+pk) || p.FileClass(p.FuncPos(fn)) != "prod" {
				continue
			}
			for _, ci := range Calls(fn, AnyOf(Fn("std:slices", "", "Compact"), Fn("std:slices", "", "CompactFunc"))) {
				if len(ci.Common().Args) > 0 && strings.Contains(ci.Common().Args[0].Type().String(), "VerifiableCredential") {
					sites = append(sites, Site{Fn: fn, Instr: ci, Pos: ci.Pos()})
				}
			}
		}
	}
	r.Own(OwnSpec{ID: "C12.wallet.duplicates-removed-wherever-they-are", Op: "remove duplicates with slices.Compact/CompactFunc (adjacent elements only) from an unsorted credential list",
		Sites: sites, Owners: map[string]string{}, Min: 0})
}

func c13Seed5(r *Report) {
	p := r.P
	// C13-g: "poor man's two-phase commit": at most ONE method manager has a commit that can fail (did:nuts publishes to the
	// network). The did:web commit cannot fail — otherwise a did:nuts document is on the network while the database
	// versions of all DIDs are rolled back
	allReturnsNil(r, "C13.commit.only-one-method-can-fail", "TABLE: (vdr/didweb.Manager).Commit returns nil on every path",
		p.Func("vdr/didweb", "Manager", "Commit"), "the did:web commit can fail: with did:nuts published first, the operation is rolled back in the database but not on the network")
}

func c14Seed5(r *Report) {
	p := r.P
	// C14-h: every subscriber is notified of an admitted transaction: the Range callback of state.notify never stops the iteration
	nt := p.Func("network/dag", "state", "notify")
	rule := "TABLE: the sync.Map.Range callback in state.notify returns true on every path (no subscriber is skipped)"
	key := "C14.notify.every-subscriber-is-called"
	if nt == nil {
		r.Lost(key, rule, "state.notify not found")
	} else {
		n, bad := 0, ""
		for _, f := range WithAnons(nt) {
			if f == nt {
				continue
			}
			for _, b := range f.Blocks {
				ret, ok := b.Instrs[len(b.Instrs)-1].(*ssa.Return)
				if !ok || len(ret.Results) != 1 {
					continue
				}
				n++
				if k, isK := ConstBool(ret.Results[0]); !isK || !k {
					bad = p.Pos(ret.Pos())
				}
			}
		}
		r.Sites += n
		switch {
		case n == 0:
			r.Lost(key, rule, "callback not found")
		case bad != "":
			r.Bad(key, rule, bad, "the iteration over the subscribers can stop early: the remaining subscribers are neither called nor retried in this process")
		default:
			r.OK(key, rule, p.Pos(nt.Pos()), "", true)
		}
	}
	// C14-g: a failed delivery with retry budget left is always rescheduled: once the budget test passed, every path through
	// notifier.retry reaches the go statement of the retry loop
	rt := p.Func("network/dag", "notifier", "retry")
	rule = "ORDER: in notifier.retry every return after the retry-budget test is preceded by the go statement that runs the retry loop"
	key = "C14.retry.always-scheduled-within-budget"
	if rt == nil {
		r.Lost(key, rule, "notifier.retry not found")
		return
	}
	var goBlocks []*ssa.BasicBlock
	for _, b := range rt.Blocks {
		for _, in := range b.Instrs {
			if _, ok := in.(*ssa.Go); ok {
				goBlocks = append(goBlocks, b)
			}
		}
	}
	if len(goBlocks) != 1 {
		r.Lost(key, rule, fmt.Sprintf("%d go statements in retry (expected 1)", len(goBlocks)))
		return
	}
	r.Sites++
	// returns not dominated by the go block: allowed only directly on the budget test (the first If of the function)
	bad := ""
	firstIf := rt.Blocks[0]
	for _, b := range rt.Blocks {
		ret, ok := b.Instrs[len(b.Instrs)-1].(*ssa.Return)
		if !ok || goBlocks[0].Dominates(b) {
			continue
		}
		budget := false
		for _, pr := range b.Preds {
			if pr == firstIf || (len(pr.Preds) == 1 && pr.Preds[0] == firstIf && len(pr.Instrs) <= 2) {
				budget = true
			}
		}
		if !budget {
			bad = p.Pos(ret.Pos())
		}
	}
	if bad != "" {
		r.Bad(key, rule, bad, "retry returns here without having scheduled the retry loop although the budget test passed: the event stays undelivered until the next restart")
	} else {
		r.OK(key, rule, p.Pos(rt.Pos()), "", true)
	}
}

func c15Seed5(r *Report) {
	p := r.P
	// C15-g: the header names every participant the sender listed: PAL.Encrypt succeeds only when a key was resolved for each
	// of them (a participant silently left out can no longer obtain the payload, and peers see another participant list)
	en := p.Func("network/dag", "PAL", "Encrypt")
	r.Gate(Gate{ID: "C15.pal.every-listed-participant-is-in-the-header", Fn: en, Effect: SuccessReturn(), ForEach: true,
		Check: ErrCheck(p.FnOrImpl("vdr/resolver", "KeyResolver", "ResolveKey"))})
}

func c16Seed5(r *Report, us *ssa.Function) {
	// C16-h: whatever the server answered, the client compares the seed before it concludes anything from the answer: no
	// success return of updateService bypasses wipeOnSeedChange
	r.Gate(Gate{ID: "C16.client.seed-checked-on-every-update", Fn: us, Effect: SuccessReturn(), Check: ErrCheck(Fn("discovery", "sqlStore", "wipeOnSeedChange"))})
}

func c17Seed5(r *Report) {
	p := r.P
	// C17-g: "signed by the right key": the OpenID4VCI proof's signer is the DID of the key that VERIFIED it (the kid handed
	// to the key resolver), never a claim the token makes about itself
	vp := p.Func("vcr/issuer", "openidHandler", "validateProof")
	rule := "ARG: in validateProof the DID compared with the wallet is taken from the verifying key id (the value the key-resolver callback recorded), not from a claim of the token"
	key := "C17.vci.proof-signer-is-the-verifying-key"
	if vp == nil {
		r.Lost(key, rule, "validateProof not found")
		return
	}
	calls := Calls(vp, Fn("vdr/resolver", "", "GetDIDFromURL"))
	r.Sites += len(calls)
	if len(calls) == 0 {
		r.Lost(key, rule, "GetDIDFromURL not called")
		return
	}
	const jwtPkg = "github.com/lestrrat-go/jwx/v2/jwt"
	var fromClaim func(v ssa.Value, d int) bool
	fromClaim = func(v ssa.Value, d int) bool {
		if d > 6 {
			return false
		}
		switch x := v.(type) {
		case *ssa.Call:
			if x.Common().IsInvoke() && x.Common().Method.Pkg() != nil && x.Common().Method.Pkg().Path() == jwtPkg {
				return true
			}
		case *ssa.Phi:
			for _, e := range x.Edges {
				if fromClaim(e, d+1) {
					return true
				}
			}
		case *ssa.Extract:
			return fromClaim(x.Tuple, d+1)
		case *ssa.TypeAssert:
			return fromClaim(x.X, d+1)
		case *ssa.Convert:
			return fromClaim(x.X, d+1)
		case *ssa.UnOp:
			if a, ok := x.X.(*ssa.Alloc); ok {
				for _, ref := range *a.Referrers() {
					if st, isSt := ref.(*ssa.Store); isSt && st.Addr == ssa.Value(a) && fromClaim(st.Val, d+1) {
						return true
					}
				}
			}
		}
		return false
	}
	for _, c := range calls {
		if fromClaim(c.Common().Args[0], 0) {
			r.Bad(key, rule, p.Pos(c.Pos()), "the signer is (also) read from a claim of the token: a proof signed by another DID passes by naming the wallet in that claim")
			return
		}
	}
	r.OK(key, rule, p.Pos(calls[0].Pos()), "", true)
}

func c18Seed5(r *Report) {
	p := r.P
	// C18-h: DID -> URL -> DID is the identity: DIDToURL returns the parsed URL with the host exactly as the DID spells it
	// (mapping the host for the IP test is done on a copy, see isIPAddress)
	d2u := p.Func("vdr/didweb", "", "DIDToURL")
	rule := "OWN: DIDToURL never assigns the Host (or Path) of the URL it returns"
	key := "C18.url.host-returned-as-spelled"
	if d2u == nil {
		r.Lost(key, rule, "DIDToURL not found")
		return
	}
	for _, b := range d2u.Blocks {
		for _, in := range b.Instrs {
			st, ok := in.(*ssa.Store)
			if !ok {
				continue
			}
			if fa, isFA := st.Addr.(*ssa.FieldAddr); isFA {
				if n := NamedOf(fa.X.Type()); n != nil && n.Obj().Name() == "URL" && n.Obj().Pkg() != nil && n.Obj().Pkg().Path() == "net/url" {
					r.Bad(key, rule, p.Pos(st.Pos()), "field "+fieldName(fa.X.Type(), fa.Field)+" of the returned URL is rewritten: URLToDID of the result is no longer the DID")
					return
				}
			}
		}
	}
	r.Sites++
	r.OK(key, rule, p.Pos(d2u.Pos()), "", true)
}

func c20Seed5(r *Report) {
	p := r.P
	const hc = "http/client"
	// C20-g: the strict client consults the flag when the REQUEST is made: clients are constructed while the engines are
	// configured, the HTTP engine (which sets the flag) comes last — a copy taken at construction is the zero value
	strictGlobalFalse := Check{Desc: "the package-level StrictMode is false", Pass: IsFalse, Values: func(fn *ssa.Function) []ssa.Value {
		var out []ssa.Value
		for _, b := range fn.Blocks {
			for _, in := range b.Instrs {
				if u, ok := in.(*ssa.UnOp); ok && u.Op == token.MUL {
					if g, isG := u.X.(*ssa.Global); isG && g.Name() == "StrictMode" {
						out = append(out, u)
					}
				}
			}
		}
		return out
	}}
	https := CmpCheck("req.URL.Scheme == \"https\"", token.EQL, FieldV("URL", "Scheme"), StrV("https"), true)
	do := p.Func(hc, "StrictHTTPClient", "Do")
	r.Gate(Gate{ID: "C20.httpclient.flag-read-at-request-time", Fn: do, Effect: CallEffect(Fn("std:net/http", "Client", "Do")), Check: https, Alt: []Check{strictGlobalFalse}})
}

var _ = types.Typ

func c07Seed5(r *Report) {
	p := r.P
	// C07-h: a peer is sent every transaction it asked for (only the PAYLOAD of a private transaction is withheld): the
	// collecting loop appends each requested transaction or fails the whole answer
	ctl := p.Func("network/transport/v2", "protocol", "collectTransactionList")
	r.EachIteration("C07.progress.every-requested-transaction-is-sent", ctl, "append to the answer", func(in ssa.Instruction) bool {
		c, ok := in.(*ssa.Call)
		if !ok {
			return false
		}
		b, isB := c.Call.Value.(*ssa.Builtin)
		return isB && b.Name() == "append"
	})
	// C07-g: what XOR()/IBLT() hand out is a fresh summary computed from the tree at that moment: reconciliation subtracts
	// from and destructively decodes the value it was given, a retained copy would be what the next peer is told
	r.ReturnsOnly("C07.iblt.root-is-a-fresh-summary", p.Func("network/dag", "treeStore", "getRoot"), 0, false, p.FnOrImpl("network/dag/tree", "Tree", "Root"))
}

func c02Seed5(r *Report) {
	p := r.P
	// C02-h: "the presenter is the subject" is an exact DID comparison (DID.Equals), not a case-folded or otherwise
	// loosened string comparison: did:web paths and did:nuts identifiers are case sensitive
	r.Gate(Gate{ID: "C02.inner.subject.exact-did-match", Fn: p.Func("vcr/credential", "", "PresenterIsCredentialSubject"), Effect: ReturnsNonNil(0),
		Check: CallCheck(Fn(goDid+"/did", "DID", "Equals"), 0, IsTrue)})
}

// c19LockPairing (C19-h): a function that releases a mutex explicitly (no defer) releases it on EVERY path from the
// acquisition to a return: a path that keeps a read lock blocks every later writer — and with it every message handler —
// forever. Functions that never release the lock themselves (hand-over to the caller) are not in scope.
func c19LockPairing(r *Report) {
	p := r.P
	rule := "ORDER: in a function that unlocks a struct-field mutex explicitly, every path from Lock/RLock to a return passes the matching Unlock/RUnlock (or the function defers it)"
	type lockKey struct{ field, kind string }
	keyOf := func(c *ssa.CallCommon) (lockKey, string, bool) {
		f := c.StaticCallee()
		if f == nil || f.Pkg == nil || f.Pkg.Pkg.Path() != "sync" || len(c.Args) == 0 {
			return lockKey{}, "", false
		}
		var kind, op string
		switch f.Name() {
		case "Lock":
			kind, op = "w", "lock"
		case "Unlock":
			kind, op = "w", "unlock"
		case "RLock":
			kind, op = "r", "lock"
		case "RUnlock":
			kind, op = "r", "unlock"
		default:
			return lockKey{}, "", false
		}
		fa, ok := c.Args[0].(*ssa.FieldAddr)
		if !ok {
			return lockKey{}, "", false
		}
		return lockKey{fieldName(fa.X.Type(), fa.Field) + "@" + fa.X.Type().String(), kind}, op, true
	}
	n := 0
	var bad []string
	for _, fn := range p.Funcs {
		if !p.InModule(fn) || p.FileClass(p.FuncPos(fn)) != "prod" || fn.Blocks == nil {
			continue
		}
		locks := map[lockKey][]ssa.Instruction{}
		unlocks := map[lockKey][]ssa.Instruction{}
		deferred := map[lockKey]bool{}
		for _, b := range fn.Blocks {
			for _, in := range b.Instrs {
				switch x := in.(type) {
				case *ssa.Call:
					if k, op, ok := keyOf(x.Common()); ok {
						if op == "lock" {
							locks[k] = append(locks[k], in)
						} else {
							unlocks[k] = append(unlocks[k], in)
						}
					}
				case *ssa.Defer:
					if k, op, ok := keyOf(x.Common()); ok && op == "unlock" {
						deferred[k] = true
					}
					// defer func() { ...Unlock() }()
					if mc, isMC := x.Call.Value.(*ssa.MakeClosure); isMC {
						if cl, isF := mc.Fn.(*ssa.Function); isF {
							for _, cb := range cl.Blocks {
								for _, ci := range cb.Instrs {
									if c, isC := ci.(*ssa.Call); isC {
										if f := c.Common().StaticCallee(); f != nil && (f.Name() == "Unlock" || f.Name() == "RUnlock") {
											deferred[lockKey{"*", "*"}] = true
										}
									}
								}
							}
						}
					}
				}
			}
		}
		for k, ls := range locks {
			if deferred[k] || deferred[lockKey{"*", "*"}] || len(unlocks[k]) == 0 {
				continue
			}
			n++
			blocked := map[*ssa.BasicBlock]bool{}
			for _, u := range unlocks[k] {
				blocked[u.Block()] = true
			}
			for _, l := range ls {
				lb := l.Block()
				// an unlock later in the lock's own block releases it
				after, released := false, false
				for _, in := range lb.Instrs {
					if in == l {
						after = true
						continue
					}
					if after {
						for _, u := range unlocks[k] {
							if u == in {
								released = true
							}
						}
					}
				}
				if released {
					continue
				}
				for _, s := range lb.Succs {
					if blocked[s] {
						continue
					}
					for b := range Reach(s, nil, blocked) {
						if len(b.Succs) == 0 {
							if ret, ok := b.Instrs[len(b.Instrs)-1].(*ssa.Return); ok {
								bad = append(bad, fmt.Sprintf("%s: return at %s still holds %s (locked at %s)", p.FuncName(fn), p.Pos(ret.Pos()), strings.SplitN(k.field, "@", 2)[0], p.Pos(l.Pos())))
							}
						}
					}
				}
			}
		}
	}
	r.Sites += n
	key := "C19.term.lock-released-on-every-exit"
	switch {
	case n < 1:
		r.Lost(key, rule, fmt.Sprintf("%d functions with explicit unlocking found (expected >= 1)", n))
	case len(bad) > 0:
		bad = uniq(sortedCopy(bad))
		r.Bad(key, rule, "", strings.Join(bad, "; "))
	default:
		r.OK(key, rule, "", fmt.Sprintf("%d lock/function pairs with explicit unlocking", n), true)
	}
}
