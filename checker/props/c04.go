package props

import (
	"fmt"
	"go/token"
	"go/types"
	"sort"
	"strings"

	"golang.org/x/tools/go/ssa"

	. "verifcheck/an"
)

func init() { Registry["C04"] = c04 }

func c04(r *Report) {
	defer c04Seed7(r)
	defer c04Seed5(r)
	defer c04Seed6(r)
	p := r.P
	r.Explanation = "Static decision of the structural conditions behind internal-API authentication: (1) the function that decides whether authentication applies (the skipper closure handed to the token middleware, and what it calls) reads from the request only URL.Path/RawPath — the attribute the router dispatches on — so guard and router cannot disagree; (2) in the token middleware the next handler is reachable only through the skipper or through every token check (credential present, secure, parsed+verified against an authorised key, validated with audience, best-practice fields, issuer == key owner), and every other return is unauthorizedError (401); the inner checks gate their own success returns; (3) the bind table sends /internal,/status,/health,/metrics to the internal address and the route table of the whole module has only exact lower-case first segments from the internal/public sets, so the case-insensitive binder and the case-sensitive guard agree; routes reach a listener only through MultiEcho's dispatcher."
	r.NotDecided = []string{"how net/http and echo parse exotic request lines (library behaviour)", "cryptographic verification inside jwx"}
	r.Assumptions = []string{"echo v4 routes on URL.RawPath if set, else URL.Path; a request whose decoded URL.Path starts with /internal/ is the only kind that can reach a handler registered under /internal", "echo middleware registered with Use runs before routing for every request of that server"}

	const h = "http"
	const tv2 = "http/tokenV2"

	// --- (1) guard source
	apply := p.Func(h, "Engine", "applyAuthMiddleware")
	guardRule := "OWN: the authentication guard reads only URL.Path/URL.RawPath of the request"
	if apply == nil {
		r.Lost("C04.guard-source", guardRule, "applyAuthMiddleware not found")
	} else {
		skippers := ClosureArgs(apply, AnyOf(Fn(tv2, "", "NewFromFile"), Fn(tv2, "", "New")), 0)
		if len(skippers) == 0 {
			r.Lost("C04.guard-source", guardRule, "no skipper closure passed to tokenV2.New/NewFromFile in applyAuthMiddleware")
		}
		for _, sk := range skippers {
			c04GuardReads(r, sk, "C04.guard-source")
		}
		// the skipper result is negated match on the protected path: GATE inside the skipper: returns true (skip) only via matchesPath false
		for _, sk := range skippers {
			r.Gate(Gate{ID: "C04.guard-skip-only-off-path", Fn: sk, Effect: ReturnsBool(0, true), Check: CallCheck(Fn(h, "", "matchesPath"), -1, IsFalse), Note: "skip ⇔ not under the protected path"})
		}
	}
	// --- (1b) the guard is actually installed: with token auth configured, applyAuthMiddleware succeeds only after
	// handing the authenticator's Handler to the router; any other auth type is an error; Configure fails if it fails.
	if apply != nil {
		tokType, _ := p.ConstValue(h, "BearerTokenAuthV2")
		tokType = strings.Trim(tokType, "\"")
		typ := FieldV("AuthConfig", "Type")
		use := Callee{Desc: "EchoRouter.Use", M: func(cc *ssa.CallCommon) bool { return cc.IsInvoke() && cc.Method.Name() == "Use" }}
		isTok := CmpCheck("config.Type == BearerTokenAuthV2", token.EQL, typ, StrV(tokType), true)
		r.MustReach(MustReach{ID: "C04.install.token-middleware-installed", Fn: apply, Cond: isTok, Target: use, SuccessOnly: true,
			TargetOK: func(ci ssa.CallInstruction) bool {
				for _, a := range ci.Common().Args {
					for _, el := range append(VariadicElems(ci), a) {
						if mc, ok := StripConv(el).(*ssa.MakeClosure); ok && len(mc.Bindings) == 1 && strings.HasPrefix(mc.Fn.Name(), "Handler") &&
							CallV(AnyOf(Fn(tv2, "", "NewFromFile"), Fn(tv2, "", "New")), 0).M(mc.Bindings[0]) {
							return true
						}
					}
				}
				return false
			}})
		r.Gate(Gate{ID: "C04.install.no-auth-only-if-unconfigured", Fn: apply, Effect: ConstNilReturn(), Check: CmpCheck("config.Type == \"\"", token.EQL, typ, StrV(""), true), Alt: []Check{isTok}})
	}
	r.Gate(Gate{ID: "C04.install.configure-fails-if-auth-fails", Fn: p.Func(h, "Engine", "Configure"), Effect: SuccessReturn(), Check: ErrCheck(Fn(h, "Engine", "applyAuthMiddleware"))})
	mp := p.Func(h, "", "matchesPath")
	r.Gate(Gate{ID: "C04.guard.matchesPath.prefix-or-root", Fn: mp, Effect: ReturnsBool(0, true), Check: CallCheck(Fn("std:strings", "", "HasPrefix"), -1, IsTrue),
		Alt: []Check{CmpCheck("path == \"/\"", token.EQL, ParamV("path"), StrV("/"), true), CmpCheck("requestURI == path", token.EQL, c04FromParam("requestURI"), c04FromParam("path"), true)}})
	r.ArgIs("C04.guard.matchesPath.prefix-of-request", mp, Fn("std:strings", "", "HasPrefix"), 0, c04FromParam("requestURI"), 1)
	r.ArgIs("C04.guard.matchesPath.prefix-is-path", mp, Fn("std:strings", "", "HasPrefix"), 1, c04FromParam("path"), 1)
	c04Dispatcher(r)
	// positive control for the zero-count detector
	c04Fixture(r)

	// --- (2) middleware gates
	mw := p.Func(tv2, "middlewareImpl", "checkConnectionAuthorization")
	next := CallEffect(DynParam("next"))
	granted := CallEffect(Fn(tv2, "", "accessGranted"))
	r.Gate(Gate{ID: "C04.mw.skip", Fn: mw, Effect: next, Check: CallCheck(DynType("SkipperFunc"), -1, IsTrue)})
	r.Gate(Gate{ID: "C04.mw.credential-present", Fn: mw, Effect: granted, Check: CmpCheck("credential == \"\" is false", token.EQL, CallV(Fn(tv2, "", "authenticationCredential"), -1), StrV(""), false)})
	r.Gate(Gate{ID: "C04.mw.credential-secure", Fn: mw, Effect: granted, Check: ErrCheck(Fn(tv2, "", "credentialIsSecure"))})
	parse := ErrCheck(Fn(jwtPkg, "", "ParseString"))
	parse.ArgOK = func(ci ssa.CallInstruction) string {
		if !variadicHasCall(ci, Fn(jwtPkg, "", "WithKeySet")) {
			return "jwt.ParseString is not given jwt.WithKeySet(authorizedKey.jwkSet): the token would not be verified against the authorised key"
		}
		for _, el := range VariadicElems(ci) {
			if c, ok := StripConv(el).(*ssa.Call); ok && Fn(jwtPkg, "", "WithVerify").M(c.Common()) {
				return "jwt.WithVerify option present: signature verification may be disabled"
			}
		}
		return ""
	}
	r.Gate(Gate{ID: "C04.mw.signed-by-authorized-key", Fn: mw, Effect: granted, Check: parse})
	validate := ErrCheck(Fn(jwtPkg, "", "Validate"))
	validate.ArgOK = func(ci ssa.CallInstruction) string {
		if !variadicHasCall(ci, Fn(jwtPkg, "", "WithAudience")) {
			return "jwt.Validate without jwt.WithAudience(configured audience)"
		}
		return ""
	}
	r.Gate(Gate{ID: "C04.mw.validated-with-audience", Fn: mw, Effect: granted, Check: validate})
	r.Gate(Gate{ID: "C04.mw.best-practices", Fn: mw, Effect: granted, Check: ErrCheck(Fn(tv2, "", "bestPracticesCheck"))})
	// the comment compared is that of the entry whose key set verified the signature (not of any registered entry: a
	// helper that searches all entries for the issuer lets the holder of key B sign as A)
	var verifyingKey ssa.Value
	for _, f := range WithAnons(mw) {
		for _, ci := range Calls(f, Fn(jwtPkg, "", "WithKeySet")) {
			if b := FieldBase(CallArg(ci.Common(), 0)); b != nil {
				verifyingKey = b
			}
		}
	}
	ownerComment := VPat{"comment of the authorized_keys entry whose key set verified the token", func(v ssa.Value) bool {
		if !FieldV("authorizedKey", "comment").M(v) {
			return false
		}
		return verifyingKey == nil || FieldBase(v) == verifyingKey
	}}
	r.Gate(Gate{ID: "C04.mw.issuer-is-key-owner", Fn: mw, Effect: granted,
		Check: CmpCheck("authorizedKey.comment == token.Issuer()", token.EQL, ownerComment, CallV(Fn(jwtPkg, "Token", "Issuer"), -1), true)})
	r.ReturnsOnly("C04.mw.failure-is-401", mw, -1, false, DynParam("next"), Fn(tv2, "", "accessGranted"), Fn(tv2, "", "unauthorizedError"))
	// unauthorizedError builds a 401
	c04Unauthorized(r)
	// next is invoked only by the middleware itself
	r.Own(OwnSpec{ID: "C04.own.accessGranted", Op: "call accessGranted", Sites: p.CallSites(Fn(tv2, "", "accessGranted"), true), Min: 1,
		Owners: map[string]string{"(http/tokenV2.middlewareImpl).checkConnectionAuthorization": "after all checks"}})
	// the next handler (any value of type echo.HandlerFunc) is invoked, in the token middleware package, only by the two
	// functions whose invocation is gated above: no side door (e.g. a "preflight" exemption) in front of the check
	var dyn []Site
	p.EachInstr(func(fn *ssa.Function, in ssa.Instruction) {
		ci, ok := in.(ssa.CallInstruction)
		if !ok || !strings.HasPrefix(p.FuncName(Outer(fn)), "http/tokenV2.") && !strings.HasPrefix(p.FuncName(Outer(fn)), "(http/tokenV2.") && !strings.HasPrefix(p.FuncName(Outer(fn)), "(*http/tokenV2.") {
			return
		}
		cc := ci.Common()
		if cc.IsInvoke() || cc.StaticCallee() != nil {
			return
		}
		if n, ok := types.Unalias(cc.Value.Type()).(*types.Named); ok && n.Obj().Name() == "HandlerFunc" && n.Obj().Pkg() != nil && n.Obj().Pkg().Path() == "github.com/labstack/echo/v4" {
			dyn = append(dyn, Site{Fn: fn, Instr: in, Pos: in.Pos(), Note: "invokes an echo.HandlerFunc value"})
		}
	})
	r.Own(OwnSpec{ID: "C04.own.next-handler", Op: "invoke the next handler (an echo.HandlerFunc value)", Sites: dyn, Min: 2,
		Owners: map[string]string{
			"(http/tokenV2.middlewareImpl).checkConnectionAuthorization": "the skipper branch (C04.mw.skip)",
			"http/tokenV2.accessGranted":                                 "after all token checks (C04.mw.*)",
		}})
	r.Own(OwnSpec{ID: "C04.own.check", Op: "call checkConnectionAuthorization", Sites: p.CallSites(Fn(tv2, "middlewareImpl", "checkConnectionAuthorization"), true), Min: 1,
		Owners: map[string]string{"(http/tokenV2.middlewareImpl).Handler": "the echo middleware"}})

	// inner: credentialIsSecure
	cis := p.Func(tv2, "", "credentialIsSecure")
	sigs := Fn(jwsPkg, "Message", "Signatures")
	_ = sigs
	r.Gate(Gate{ID: "C04.secure.parse", Fn: cis, Effect: SuccessReturn(), Check: compactParse()})
	r.Gate(Gate{ID: "C04.secure.alg-allowlist", Fn: cis, Effect: SuccessReturn(), Check: CallCheck(Fn(tv2, "", "acceptableSignatureAlgorithm"), -1, IsTrue), ForEach: true})
	hdr := func(m string) Callee { return Fn(jwsPkg, "Headers", m) }
	r.Gate(Gate{ID: "C04.secure.no-jwk", Fn: cis, Effect: SuccessReturn(), ForEach: true, Check: CmpCheck("JWK() == nil", token.EQL, CallV(hdr("JWK"), -1), NilV(), true)})
	r.Gate(Gate{ID: "C04.secure.no-jku", Fn: cis, Effect: SuccessReturn(), ForEach: true, Check: CmpCheck("JWKSetURL() == \"\"", token.EQL, CallV(hdr("JWKSetURL"), -1), StrV(""), true)})
	r.Gate(Gate{ID: "C04.secure.no-x5c", Fn: cis, Effect: SuccessReturn(), ForEach: true, Check: CmpCheck("X509CertChain() == nil", token.EQL, CallV(hdr("X509CertChain"), -1), NilV(), true)})
	r.Gate(Gate{ID: "C04.secure.no-x5u", Fn: cis, Effect: SuccessReturn(), ForEach: true, Check: CmpCheck("X509URL() == \"\"", token.EQL, CallV(hdr("X509URL"), -1), StrV(""), true)})
	r.Gate(Gate{ID: "C04.secure.length", Fn: cis, Effect: SuccessReturn(), Check: CmpCheck("len(credential) <= MaximumCredentialLength", token.LEQ, LenV(ParamV("credential")), AnyV(), true)})

	// inner: bestPracticesCheck
	bp := p.Func(tv2, "", "bestPracticesCheck")
	r.Gate(Gate{ID: "C04.bp.mandatory-fields", Fn: bp, Effect: SuccessReturn(), ForEach: true, Check: OkCheck(Fn(jwtPkg, "Token", "Get"))})
	r.Gate(Gate{ID: "C04.bp.jti-uuid", Fn: bp, Effect: SuccessReturn(), Check: ErrCheck(Fn("github.com/google/uuid", "", "Parse"))})
	r.Gate(Gate{ID: "C04.bp.lifetime", Fn: bp, Effect: SuccessReturn(), Check: Check{Desc: "Expiration().After(bound) false (all sites)", Call: ptr(Fn("std:time", "Time", "After")), Result: -1, Pass: IsFalse, MinSite: 3}})
	// jwt.Validate skips the expiry check for exp == 0 (the epoch reads as "not set"): the bounded lifetime needs a lower
	// bound of its own (fix: token with exp 0 never expired)
	r.Gate(Gate{ID: "C04.bp.expires-in-the-future", Fn: bp, Effect: SuccessReturn(),
		Check: TimeOrder("time.Now() is before token.Expiration()", NowV(), CallV(Fn(jwtPkg, "Token", "Expiration"), -1), IsTrue)})
	r.Gate(Gate{ID: "C04.bp.subject", Fn: bp, Effect: SuccessReturn(), Check: CmpCheck("Subject() == \"\" is false", token.EQL, CallV(Fn(jwtPkg, "Token", "Subject"), -1), StrV(""), false)})
	c04MandatoryFields(r)

	// --- (3) binds and routes
	// the binds are unconditional: Configure succeeds only after every Bind succeeded (a skipped internal bind would let
	// the dispatcher fall back to the public listener)
	r.Gate(Gate{ID: "C04.binds.unconditional", Fn: p.Func(h, "Engine", "Configure"), Effect: SuccessReturn(), ForEach: true, Check: Check{Desc: "MultiEcho.Bind(<internal path>, Internal.Address) err == nil", Call: ptr(Fn(h, "MultiEcho", "Bind")), Result: -1, Pass: ErrNil,
		Filter: func(ci ssa.CallInstruction) bool {
			return FieldPathEnds(CallArg(ci.Common(), 1), "Internal", "Address")
		}}})
	r.Gate(Gate{ID: "C04.binds.root-unconditional", Fn: p.Func(h, "Engine", "Configure"), Effect: SuccessReturn(), Check: Check{Desc: "MultiEcho.Bind(\"/\", Public.Address) err == nil", Call: ptr(Fn(h, "MultiEcho", "Bind")), Result: -1, Pass: ErrNil,
		Filter: func(ci ssa.CallInstruction) bool { return FieldPathEnds(CallArg(ci.Common(), 1), "Public", "Address") }}})
	c04Binds(r)
	// the two listeners are different listeners: the dispatcher re-uses the server of an address that is already bound, so
	// equal addresses put /internal, /status, /metrics and /health on the public listener (fix: that was accepted silently)
	cfgFn := p.Func(h, "Engine", "Configure")
	r.Gate(Gate{ID: "C04.binds.addresses-differ", Fn: cfgFn, Effect: CallEffect(Fn(h, "MultiEcho", "Bind")),
		Check: CmpCheck("Internal.Address == Public.Address is false", token.EQL,
			VPat{Desc: "config.Internal.Address", M: func(v ssa.Value) bool { return FieldPathEnds(v, "Internal", "Address") }},
			VPat{Desc: "config.Public.Address", M: func(v ssa.Value) bool { return FieldPathEnds(v, "Public", "Address") }}, false)})
	// ... nor the same socket in two spellings (':8080' / '0.0.0.0:8080', 'localhost:8080' / '127.0.0.1:8080'): only one of the two
	// servers can bind, the node keeps running, and when the internal one wins its routes are served on the public address
	sla := Fn(h, "", "sameListenAddress")
	r.Gate(Gate{ID: "C04.binds.addresses-do-not-overlap", Fn: cfgFn, Effect: CallEffect(Fn(h, "MultiEcho", "Bind")), Check: CallCheck(sla, 0, IsFalse)})
	addrArg := func(which string) VPat {
		return VPat{Desc: "config." + which + ".Address", M: func(v ssa.Value) bool { return FieldPathEnds(v, which, "Address") }}
	}
	r.ArgIs("C04.binds.addresses-do-not-overlap.of-the-two-addresses", cfgFn, sla, 0, OrV(addrArg("Internal"), addrArg("Public")), 1)
	r.ArgIs("C04.binds.addresses-do-not-overlap.of-the-two-addresses", cfgFn, sla, 1, OrV(addrArg("Internal"), addrArg("Public")), 1)
	// "not the same" is concluded (constant false) only from an address that does not resolve, different ports, or port 0;
	// everything else is decided by the IP comparison (equal, or one of them the wildcard)
	slaFn := p.Func(h, "", "sameListenAddress")
	port := FieldV("TCPAddr", "Port")
	r.Gate(Gate{ID: "C04.binds.overlap.false-only-for-different-ports", Fn: slaFn, Effect: ReturnsConstBoolVal(0, false),
		Check: CmpCheck("port1 == port2 is false", token.EQL, port, port, false),
		Alt: []Check{CallCheck(Fn("std:net", "", "ResolveTCPAddr"), -1, NonNil), CmpCheck("port == 0", token.EQL, port, IntV(0), true)}})
	{
		rule := "ARG: the IP comparison of sameListenAddress treats the unspecified address as overlapping (IP.IsUnspecified is consulted) next to IP.Equal"
		key := "C04.binds.overlap.wildcard-overlaps-everything"
		nU, nE := 0, 0
		if slaFn != nil {
			for _, f := range WithAnons(slaFn) {
				nU += len(Calls(f, Fn("std:net", "IP", "IsUnspecified")))
				nE += len(Calls(f, Fn("std:net", "IP", "Equal")))
			}
		}
		r.Sites += nU + nE
		switch {
		case slaFn == nil:
			r.Lost(key, rule, "sameListenAddress not found")
		case nU == 0 || nE == 0:
			r.Bad(key, rule, p.Pos(slaFn.Pos()), fmt.Sprintf("IsUnspecified calls: %d, Equal calls: %d", nU, nE))
		default:
			r.OK(key, rule, p.Pos(slaFn.Pos()), "", true)
		}
	}
	// a request that fails authentication has no side effect: the (shared-bucket) rate limiter sits INSIDE the auth middleware,
	// i.e. it is installed after it (echo runs middleware in registration order), and only once auth was installed
	r.Gate(Gate{ID: "C04.install.rate-limiter-inside-auth", Fn: cfgFn, Effect: CallEffect(Fn(h, "Engine", "applyRateLimiterMiddleware")), Check: ErrCheck(Fn(h, "Engine", "applyAuthMiddleware"))})
	c04Routes(r)
	// listeners get routes only through the dispatcher
	r.Own(OwnSpec{ID: "C04.own.server-add", Op: "call EchoServer.Add on a concrete listener", Sites: p.CallSites(Fn(h, "EchoServer", "Add"), true), Min: 1,
		Owners: map[string]string{"http.NewMultiEcho": "the path dispatcher (addFn)"}})
}

func ptr[T any](v T) *T { return &v }

func variadicHasCall(ci ssa.CallInstruction, c Callee) bool {
	for _, el := range VariadicElems(ci) {
		if call, ok := StripConv(el).(*ssa.Call); ok && c.M(call.Common()) {
			return true
		}
	}
	return false
}

var c04AllowedReads = map[string]bool{"Request.URL": true, "URL.Path": true, "URL.RawPath": true, "URL.EscapedPath()": true}

func c04GuardReads(r *Report, sk *ssa.Function, id string) bool {
	p := r.P
	rule := "OWN: the authentication guard reads only URL.Path/URL.RawPath of the request"
	reads := p.RequestReads(sk, 2)
	key := id + " @ " + p.FuncName(sk)
	var bad []string
	n := 0
	pos := ""
	for name, sites := range reads {
		n += len(sites)
		if !c04AllowedReads[name] {
			bad = append(bad, fmt.Sprintf("%s at %s", name, p.Pos(sites[0].Pos)))
			pos = p.Pos(sites[0].Pos)
		}
	}
	r.Sites += n
	sort.Strings(bad)
	if len(bad) > 0 {
		r.Bad(key, rule, pos, "the guard decides on request attributes the router does not dispatch on: "+strings.Join(bad, "; "))
		return false
	}
	if _, ok := reads["URL.Path"]; !ok {
		if _, ok2 := reads["URL.RawPath"]; !ok2 {
			r.Bad(key, rule, p.Pos(sk.Pos()), "the guard does not read URL.Path at all")
			return false
		}
	}
	var names []string
	for k := range reads {
		names = append(names, k)
	}
	sort.Strings(names)
	r.OK(key, rule, p.Pos(sk.Pos()), "request attributes read: "+strings.Join(names, ", "), true)
	return true
}

// c04Fixture runs the guard-source detector over a fixture that reads RequestURI; it must be reported.
func c04Fixture(r *Report) {
	rule := "SELF-TEST: the guard-source detector reports a skipper that reads Request.RequestURI"
	fp, err := LoadFixture("c04_requesturi")
	if err != nil {
		r.Undecided("C04.guard-source.fixture", rule, "", "fixture failed to load: "+err.Error())
		return
	}
	fn := fp.FixtureFunc("skipper")
	if fn == nil {
		r.Undecided("C04.guard-source.fixture", rule, "", "fixture function skipper not found")
		return
	}
	reads := fp.RequestReads(fn, 2)
	if _, ok := reads["Request.RequestURI"]; ok {
		r.OK("C04.guard-source.fixture", rule, "", "fixture violation detected (Request.RequestURI)", false)
	} else {
		r.Undecided("C04.guard-source.fixture", rule, "", "detector did not report the fixture's RequestURI read: the zero-count rule would pass vacuously")
	}
}

func c04Unauthorized(r *Report) {
	p := r.P
	rule := "ARG: unauthorizedError builds an echo.HTTPError with Code = 401"
	fn := p.Func("http/tokenV2", "", "unauthorizedError")
	if fn == nil {
		r.Lost("C04.unauthorized-401", rule, "unauthorizedError not found")
		return
	}
	found, ok := 0, true
	for _, b := range fn.Blocks {
		for _, in := range b.Instrs {
			st, isSt := in.(*ssa.Store)
			if !isSt {
				continue
			}
			fa, isFa := st.Addr.(*ssa.FieldAddr)
			if !isFa {
				continue
			}
			if n := NamedOf(fa.X.Type()); n != nil && n.Obj().Name() == "HTTPError" && FieldPathEnds(&ssa.UnOp{Op: token.MUL, X: fa}, "Code") {
				found++
				if v, isC := ConstInt(st.Val); !isC || v != 401 {
					ok = false
				}
			}
		}
	}
	r.Sites += found
	if found == 0 {
		r.Lost("C04.unauthorized-401", rule, "no HTTPError.Code store found")
	} else if !ok {
		r.Bad("C04.unauthorized-401", rule, p.Pos(fn.Pos()), "HTTPError.Code is not the constant 401")
	} else {
		r.OK("C04.unauthorized-401", rule, p.Pos(fn.Pos()), "Code = 401", false)
	}
}

func c04MandatoryFields(r *Report) {
	p := r.P
	rule := "TABLE: mandatoryJWTFields ⊇ {jti, iat, exp, nbf, aud, iss, sub}"
	fn := p.Func("http/tokenV2", "", "mandatoryJWTFields")
	if fn == nil {
		r.Lost("C04.bp.mandatory-table", rule, "mandatoryJWTFields not found")
		return
	}
	have := map[string]bool{}
	for _, b := range fn.Blocks {
		for _, in := range b.Instrs {
			if st, ok := in.(*ssa.Store); ok {
				if s, ok := ConstString(st.Val); ok {
					have[s] = true
				}
			}
		}
	}
	r.Sites += len(have)
	var missing []string
	for _, f := range []string{"jti", "iat", "exp", "nbf", "aud", "iss", "sub"} {
		if !have[f] {
			missing = append(missing, f)
		}
	}
	if len(missing) > 0 {
		r.Bad("C04.bp.mandatory-table", rule, p.Pos(fn.Pos()), "missing mandatory fields: "+strings.Join(missing, ","))
		return
	}
	r.OK("C04.bp.mandatory-table", rule, p.Pos(fn.Pos()), fmt.Sprintf("%d fields", len(have)), false)
}

var internalSegs = map[string]bool{"internal": true, "status": true, "health": true, "metrics": true}
var publicSegs = map[string]bool{"": true, ".well-known": true, "discovery": true, "iam": true, "n2n": true, "oauth2": true, "public": true, "statuslist": true}

func c04Binds(r *Report) {
	p := r.P
	cfg := p.Func("http", "Engine", "Configure")
	rule := "TABLE: /internal,/status,/health,/metrics are bound to the internal address; the root path to the public address; auth applied to \"/internal\""
	if cfg == nil {
		r.Lost("C04.binds", rule, "Engine.Configure not found")
		return
	}
	bind := Fn("http", "MultiEcho", "Bind")
	var problems []string
	internalBinds, publicBinds := 0, 0
	for _, ci := range Calls(cfg, bind) {
		addr := CallArg(ci.Common(), 1)
		pathArg := CallArg(ci.Common(), 0)
		side := ""
		switch {
		case FieldPathEnds(addr, "Internal", "Address"):
			side = "internal"
		case FieldPathEnds(addr, "Public", "Address"):
			side = "public"
		default:
			problems = append(problems, "Bind with an address that is neither config.Internal.Address nor config.Public.Address at "+p.Pos(ci.Pos()))
			continue
		}
		if s, ok := ConstString(pathArg); ok {
			if side == "public" {
				publicBinds++
				if s != "/" {
					problems = append(problems, fmt.Sprintf("path %q bound to the public address", s))
				}
			} else {
				internalBinds++
			}
			continue
		}
		// ranged over a slice literal: collect its constant elements
		elems := rangedSliceConsts(pathArg)
		if side == "public" {
			problems = append(problems, "non-constant path bound to the public address at "+p.Pos(ci.Pos()))
			continue
		}
		internalBinds += len(elems)
		have := map[string]bool{}
		for _, e := range elems {
			have[e] = true
		}
		for seg := range internalSegs {
			if !have["/"+seg] {
				problems = append(problems, "/"+seg+" is not bound to the internal address")
			}
		}
	}
	r.Sites += internalBinds + publicBinds
	// auth middleware applied to the constant "/internal"
	authCalls := Calls(cfg, Fn("http", "Engine", "applyAuthMiddleware"))
	if len(authCalls) != 1 {
		problems = append(problems, fmt.Sprintf("%d calls of applyAuthMiddleware in Configure (expected 1)", len(authCalls)))
	} else if s, ok := ConstString(CallArg(authCalls[0].Common(), 1)); !ok || s != "/internal" {
		problems = append(problems, "applyAuthMiddleware is not called with the constant \"/internal\"")
	} else if !FieldPathEnds(CallArg(authCalls[0].Common(), 2), "Internal", "Auth") {
		problems = append(problems, "applyAuthMiddleware is not given config.Internal.Auth")
	}
	if publicBinds != 1 {
		problems = append(problems, fmt.Sprintf("%d binds to the public address (expected exactly the root path)", publicBinds))
	}
	sort.Strings(problems)
	if len(problems) > 0 {
		r.Bad("C04.binds", rule, p.Pos(cfg.Pos()), strings.Join(problems, "; "))
		return
	}
	r.OK("C04.binds", rule, p.Pos(cfg.Pos()), fmt.Sprintf("internal binds=%d public binds=%d", internalBinds, publicBinds), true)
}

// rangedSliceConsts: v is an element loaded while ranging over a slice literal of string constants; return the constants.
func rangedSliceConsts(v ssa.Value) []string {
	u, ok := v.(*ssa.UnOp)
	if !ok {
		return nil
	}
	ia, ok := u.X.(*ssa.IndexAddr)
	if !ok {
		return nil
	}
	var out []string
	for _, el := range SliceLitElems(ia.X) {
		if s, ok := ConstString(el); ok {
			out = append(out, s)
		}
	}
	return out
}

func c04Routes(r *Report) {
	p := r.P
	rule := "TABLE: every registered route's first path segment is, byte for byte, in the internal set {internal,status,health,metrics} or the public set; no mixed-case variants"
	routes := p.Routes()
	n, bad := 0, 0
	internal := 0
	for _, rt := range routes {
		cls := p.FileClass(p.FuncPos(rt.Site.Fn))
		if cls == "mock" || cls == "testhelper" {
			continue
		}
		owner := p.FuncName(Outer(rt.Site.Fn))
		// the dispatcher itself forwards a variable path
		if owner == "http.NewMultiEcho" || strings.HasPrefix(owner, "(*http.echoAdapter)") || strings.HasPrefix(owner, "(http.echoAdapter)") || strings.HasPrefix(owner, "(*http.MultiEcho)") {
			continue
		}
		n++
		key := "C04.routes @ " + owner
		if !rt.OK {
			bad++
			r.Undecided(key, rule, p.Pos(rt.Site.Pos), "route path is not a resolvable constant")
			continue
		}
		seg := strings.SplitN(strings.TrimPrefix(rt.Path, "/"), "/", 2)[0]
		if !strings.HasPrefix(rt.Path, "/") {
			bad++
			r.Bad(key, rule, p.Pos(rt.Site.Pos), fmt.Sprintf("route %q does not start with /", rt.Path))
			continue
		}
		if internalSegs[seg] {
			internal++
			continue
		}
		if publicSegs[seg] {
			continue
		}
		bad++
		why := "unknown first segment"
		if internalSegs[strings.ToLower(seg)] {
			why = "case variant of an internal segment: bound to the internal listener by the case-insensitive binder but skipped by the case-sensitive auth guard"
		}
		r.Bad(key, rule, p.Pos(rt.Site.Pos), fmt.Sprintf("route %q: %s", rt.Path, why))
	}
	r.Sites += n
	if n < 100 {
		r.Lost("C04.routes", rule, fmt.Sprintf("only %d route registrations found (expected >= 100)", n))
		return
	}
	if bad == 0 {
		r.OK("C04.routes", rule, "", fmt.Sprintf("%d routes, %d under internal segments", n, internal), true)
	}
}

// c04FromParam: the named string parameter, possibly with a constant appended, possibly selected by a phi.
func c04FromParam(name string) VPat {
	var rec func(v ssa.Value, d int) bool
	rec = func(v ssa.Value, d int) bool {
		if d > 6 {
			return false
		}
		v = StripConv(v)
		if ParamV(name).M(v) {
			return true
		}
		switch x := v.(type) {
		case *ssa.Phi:
			for _, e := range x.Edges {
				if !rec(e, d+1) {
					return false
				}
			}
			return len(x.Edges) > 0
		case *ssa.BinOp:
			if x.Op == token.ADD {
				if _, isC := x.Y.(*ssa.Const); isC {
					return rec(x.X, d+1)
				}
			}
		}
		return false
	}
	return VPat{Desc: "parameter " + name + " (optionally with a constant suffix)", M: func(v ssa.Value) bool { return rec(v, 0) }}
}

// c04Dispatcher: MultiEcho hands a route to the listener bound to the route's first path segment; the root (public)
// listener is used only when no bind exists for that segment.
func c04Dispatcher(r *Report) {
	p := r.P
	rule := "ARG: MultiEcho's route dispatcher registers a route on interfaces[binds[getBindFromPath(path)]], and on the root listener only when that bind is empty"
	key := "C04.dispatch.route-to-bound-listener"
	nm := p.Func("http", "", "NewMultiEcho")
	if nm == nil || len(nm.AnonFuncs) == 0 {
		r.Lost(key, rule, "NewMultiEcho / its addFn closure not found")
		return
	}
	var cl *ssa.Function
	for _, a := range nm.AnonFuncs {
		if len(Calls(a, p.FnOrImpl("core", "EchoRouter", "Add"))) > 0 || len(Calls(a, Callee{Desc: "Add", M: func(cc *ssa.CallCommon) bool { return cc.IsInvoke() && cc.Method.Name() == "Add" }})) > 0 {
			cl = a
		}
	}
	if cl == nil {
		r.Lost(key, rule, "addFn closure not found")
		return
	}
	var bindLk, ifaceLk, rootBindLk, rootIfaceLk *ssa.Lookup
	for _, b := range cl.Blocks {
		for _, in := range b.Instrs {
			lk, ok := in.(*ssa.Lookup)
			if !ok {
				continue
			}
			switch {
			case FieldV("MultiEcho", "binds").M(lk.X) && CallV(Fn("http", "MultiEcho", "getBindFromPath"), -1).M(lk.Index):
				bindLk = lk
			case FieldV("MultiEcho", "binds").M(lk.X):
				if s, ok := ConstString(lk.Index); ok && s == "/" {
					rootBindLk = lk
				}
			case FieldV("MultiEcho", "interfaces").M(lk.X):
				if bindLk != nil && lk.Index == ssa.Value(bindLk) {
					ifaceLk = lk
				} else if rootBindLk != nil && lk.Index == ssa.Value(rootBindLk) {
					rootIfaceLk = lk
				} else {
					r.Bad(key, rule, p.Pos(lk.Pos()), "listener looked up under "+AccessPath(lk.Index, 0))
					return
				}
			}
		}
	}
	r.Sites += 4
	if bindLk == nil || ifaceLk == nil || rootBindLk == nil || rootIfaceLk == nil {
		r.Bad(key, rule, p.Pos(cl.Pos()), fmt.Sprintf("expected lookups not all found (bind=%v listener=%v rootBind=%v rootListener=%v)", bindLk != nil, ifaceLk != nil, rootBindLk != nil, rootIfaceLk != nil))
		return
	}
	// getBindFromPath is applied to the route's path parameter
	gb := StripConv(bindLk.Index).(*ssa.Call)
	if !ParamV("path").M(CallArg(gb.Common(), 0)) {
		r.Bad(key, rule, p.Pos(gb.Pos()), "the bind is derived from "+AccessPath(CallArg(gb.Common(), 0), 0)+", not from the route's path")
		return
	}
	// the receiver of Add is a phi of exactly the two listener lookups
	for _, c := range Calls(cl, Callee{Desc: "Add", M: func(cc *ssa.CallCommon) bool { return cc.IsInvoke() && cc.Method.Name() == "Add" }}) {
		phi, ok := c.Common().Value.(*ssa.Phi)
		if !ok || len(phi.Edges) != 2 || !(phi.Edges[0] == ssa.Value(ifaceLk) && phi.Edges[1] == ssa.Value(rootIfaceLk) || phi.Edges[1] == ssa.Value(ifaceLk) && phi.Edges[0] == ssa.Value(rootIfaceLk)) {
			r.Bad(key, rule, p.Pos(c.Pos()), "the route is added to "+AccessPath(c.Common().Value, 0))
			return
		}
	}
	r.OK(key, rule, p.Pos(cl.Pos()), "bound listener by first path segment; root listener is the fallback", true)
	// the root fallback only when the bind is empty
	r.Gate(Gate{ID: "C04.dispatch.root-only-when-unbound", Fn: cl, Effect: InstrEffect("use the root (public) listener", func(in ssa.Instruction) bool { return in == ssa.Instruction(rootIfaceLk) }),
		Check: CmpCheck("bindAddress != \"\" is false", token.EQL, VPat{Desc: "binds[getBindFromPath(path)]", M: func(v ssa.Value) bool { return v == ssa.Value(bindLk) }}, StrV(""), true)})
}
