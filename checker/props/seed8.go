package props

import (
	"fmt"
	"go/token"
	"strings"

	"golang.org/x/tools/go/ssa"

	. "verifcheck/an"
)

// Rules added after the eighth (blind) seeding round (one change per property, agents told to avoid all earlier changes).

// ---------- C03 ----------

func c03Seed8(r *Report) {
	p := r.P
	// C03-m: the in-memory signer signs for a key id only when it IS the key id of the key it holds (byte equality): a
	// looser match (case folding …) issues a token whose kid names a key that did not sign it
	kidEq := CmpCheck("kid == m.Key.KeyID()", token.EQL, ParamV("kid"), CallV(Callee{Desc: "jwk.Key.KeyID", M: func(cc *ssa.CallCommon) bool {
		return cc.IsInvoke() && cc.Method != nil && cc.Method.Name() == "KeyID"
	}}, -1), true)
	r.Gate(Gate{ID: "C03.memory-signer.signs-only-for-its-own-kid.jwt", Fn: p.Func("crypto", "MemoryJWTSigner", "SignJWT"), Effect: CallEffect(Fn("crypto", "", "SignJWT")), Check: kidEq})
	r.Gate(Gate{ID: "C03.memory-signer.signs-only-for-its-own-kid.jws", Fn: p.Func("crypto", "MemoryJWTSigner", "SignJWS"), Effect: CallEffect(Fn("crypto", "", "SignJWS")), Check: kidEq})
}

// ---------- C07 ----------

func c07Seed8(r *Report) {
	p := r.P
	monotoneFlagsIn(r, "C07.flags.loop-carried-flags-are-sticky", 3, "network/transport/v2", "network/transport/v2/gossip", "network/dag/tree")
	const dag = "network/dag"
	// C07-m (reported by C06.add.recheck-present only; repeats C06-a / C08-c): a transaction delivered twice at the same time
	// is inserted into the XOR/IBLT summaries once — inside the write transaction nothing is written before presence was
	// looked at again (a ref XOR-ed in twice disappears from the summary and the node never reaches quiescence)
	add := p.Func(dag, "state", "Add")
	if add == nil {
		r.Lost("C07.safety.duplicate-delivery-is-not-summarised-twice", "GATE", "state.Add not found")
		return
	}
	var writeCl *ssa.Function
	for _, f := range WithAnons(add) {
		if f != add && len(Calls(f, Fn(dag, "state", "updateState"))) > 0 {
			writeCl = f
		}
	}
	r.Gate(Gate{ID: "C07.safety.duplicate-delivery-is-not-summarised-twice", Fn: writeCl, Effect: CallEffect(Fn(dag, "state", "updateState")),
		Check: CallCheck(Fn(dag, "dag", "isPresent"), -1, IsFalse)})
}

// ---------- C10 ----------

func c10Seed8(r *Report) {
	p := r.P
	// C10-m: the store processes EVERY delivery of a transaction: there is no "seen before" shortcut in front of the two
	// writes (both are idempotent; the first one's index entry exists as soon as it committed, also when the second write —
	// event list, metadata, latest — failed and the DAG delivers the transaction again)
	add := p.Func("vdr/didnuts/didstore", "store", "Add")
	r.Gate(Gate{ID: "C10.add.every-delivery-is-applied", Fn: add, Effect: SuccessReturn(), Check: ErrCheck(p.FnOrImpl(stoabsPkg, "KVStore", "Write"))})
}

// ---------- C11 ----------

func c11Seed8(r *Report) {
	p := r.P
	const rev = "vcr/revocation"
	// C11-m: whether an index is on a status list is decided by THAT list (its own length, bitstring.bit): the verifier
	// compares the index of an entry with nothing else — a node-local bound (the size of the lists this node issues) turns a
	// set bit on a larger foreign list into a non-revocation error that verification tolerates
	il := p.Func(rev, "StatusList2021", "isListed")
	key := "C11.status.index-bound-is-the-lists-own"
	rule := "ARG: in isListed the parsed statusListIndex is handed to bitstring.bit and compared with nothing"
	if il == nil {
		r.Lost(key, rule, "isListed not found")
		return
	}
	n := 0
	for _, b := range il.Blocks {
		for _, in := range b.Instrs {
			c, ok := in.(*ssa.Call)
			if !ok {
				continue
			}
			f := c.Common().StaticCallee()
			if f == nil || f.String() != "strconv.Atoi" {
				continue
			}
			n++
			for _, ref := range *c.Referrers() {
				ex, isEx := ref.(*ssa.Extract)
				if !isEx || ex.Index != 0 {
					continue
				}
				vals := []ssa.Value{ex}
				for _, r2 := range *ex.Referrers() {
					if st, isSt := r2.(*ssa.Store); isSt && st.Val == ssa.Value(ex) {
						if a, isA := st.Addr.(*ssa.Alloc); isA {
							for _, r3 := range *a.Referrers() {
								if u, isU := r3.(*ssa.UnOp); isU && u.Op == token.MUL {
									vals = append(vals, u)
								}
							}
						}
					}
				}
				for _, v := range vals {
					for _, use := range *v.Referrers() {
						if bo, isB := use.(*ssa.BinOp); isB {
							switch bo.Op {
							case token.LSS, token.GTR, token.LEQ, token.GEQ, token.EQL, token.NEQ:
								r.Bad(key, rule, p.Pos(bo.Pos()), "the index is compared with "+AccessPath(bo.Y, 0)+" before/besides the list's own bound")
								return
							}
						}
					}
				}
			}
		}
	}
	r.Sites += n
	if n == 0 {
		r.Lost(key, rule, "no strconv.Atoi in isListed")
		return
	}
	r.ArgIs(key+".bit", il, Fn(rev, "bitstring", "bit"), 0, ReachV(CallV(Fn("std:strconv", "", "Atoi"), 0)), 1)
	r.OK(key, rule, p.Pos(il.Pos()), fmt.Sprintf("%d parse(s)", n), true)
}

// ---------- C06 ----------

func c06Seed8(r *Report) {
	p := r.P
	// C06-m: every entry of the signed prevs header becomes a reference that must be present: the parser drops none (an
	// entry that "cannot refer to anything" — the empty hash — is exactly a reference that is never present)
	pp := p.Func("network/dag", "", "parsePrevious")
	r.EachIteration("C06.parse.every-prev-entry-is-kept", pp, "append of the parsed hash to transaction.prevs (or a refusal)", func(in ssa.Instruction) bool {
		c, ok := in.(*ssa.Call)
		if !ok {
			return false
		}
		b, isB := c.Call.Value.(*ssa.Builtin)
		return isB && b.Name() == "append"
	})
}

// ---------- C08 ----------

func c08Seed8(r *Report) {
	p := r.P
	const tr = "network/dag/tree"
	// C08-m: a tree loaded from storage equals storage: nothing is dirty afterwards. Load forgets ALL tracked updates (also
	// the fresh root leaf that New() marked dirty) — otherwise the next write persists an empty page over a stored one
	ld := p.Func(tr, "tree", "Load")
	key := "C08.tree.load-forgets-tracked-updates"
	rule := "ORDER: every success return of tree.Load passes ResetUpdates() (or, when nothing is stored, resetDefaults())"
	if ld == nil {
		r.Lost(key, rule, "tree.Load not found")
		return
	}
	// success return: `return nil`, or — when a defer makes go/ssa spill the result to a cell — the store of nil into the cell
	// that a return loads
	spilled := map[ssa.Value]bool{}
	for _, b := range ld.Blocks {
		if ret, ok := b.Instrs[len(b.Instrs)-1].(*ssa.Return); ok && len(ret.Results) == 1 {
			if u, isU := ret.Results[0].(*ssa.UnOp); isU && u.Op == token.MUL {
				if a, isA := u.X.(*ssa.Alloc); isA {
					spilled[a] = true
				}
			}
		}
	}
	isOK := func(in ssa.Instruction) bool {
		if st, ok := in.(*ssa.Store); ok && spilled[st.Addr] && IsNilConst(st.Val) {
			return true
		}
		ret, ok := in.(*ssa.Return)
		return ok && len(ret.Results) == 1 && IsNilConst(ret.Results[0])
	}
	isReset := func(in ssa.Instruction) bool {
		c, ok := in.(ssa.CallInstruction)
		// the empty-storage path re-initialises the tree (resetDefaults): an empty tree whose fresh root is dirty IS what storage implies
		return ok && (Fn(tr, "tree", "ResetUpdates").M(c.Common()) || Fn(tr, "tree", "resetDefaults").M(c.Common()))
	}
	nE, nM, bad := passesBefore(ld, isOK, isReset)
	r.Sites += nE + nM
	switch {
	case nE == 0:
		r.Lost(key, rule, "no success return in tree.Load")
	case nM == 0:
		r.Bad(key, rule, p.Pos(ld.Pos()), "tree.Load never calls ResetUpdates: leaves marked dirty before the load are written over the stored pages")
	case bad != token.NoPos:
		r.Bad(key, rule, p.Pos(bad), "this success return is reachable without ResetUpdates")
	default:
		r.OK(key, rule, p.Pos(ld.Pos()), "", true)
	}
}

// ---------- C12 ----------

func c12Seed8(r *Report) {
	p := r.P
	// C12-m: a nested requirement that cannot be fulfilled stays visible as an EMPTY member: the list handed to apply has one
	// slot per nested requirement (rule "all" compares the matched members with the length of that list)
	fnn := p.Func("vcr/pe", "SubmissionRequirement", "fromNested")
	key := "C12.rules.one-slot-per-nested-requirement"
	rule := "ARG: the member list fromNested hands to apply is make([]…, len(FromNested)) filled by index — never grown by append"
	if fnn == nil {
		r.Lost(key, rule, "fromNested not found")
		return
	}
	n := 0
	for _, b := range fnn.Blocks {
		for _, in := range b.Instrs {
			c, ok := in.(*ssa.Call)
			if !ok {
				continue
			}
			f := c.Common().StaticCallee()
			if f == nil {
				continue
			}
			name := f.Name()
			if o := f.Origin(); o != nil {
				name = o.Name()
			}
			if name != "apply" || len(c.Common().Args) < 1 {
				continue
			}
			n++
			arg := StripConv(c.Common().Args[0])
			if u, isLoad := arg.(*ssa.UnOp); isLoad && u.Op == token.MUL {
				if sts, zero, okR := reachingStores(u); okR && !zero && len(sts) == 1 {
					arg = StripConv(sts[0].Val)
				}
			}
			ms, isMS := arg.(*ssa.MakeSlice)
			if !isMS || !LenV(FieldV("SubmissionRequirement", "FromNested")).M(ms.Len) {
				r.Bad(key, rule, p.Pos(c.Pos()), "the member list is "+AccessPath(arg, 0)+": unfulfilled nested requirements leave no empty slot")
				return
			}
		}
	}
	r.Sites += n
	if n == 0 {
		r.Lost(key, rule, "no call of apply in fromNested")
		return
	}
	r.OK(key, rule, p.Pos(fnn.Pos()), "", true)
}

// ---------- C13 ----------

func c13Seed8(r *Report) {
	p := r.P
	// generic: a "committed by every method" / "all present" style flag carried over a loop never forgets an earlier element
	monotoneFlagsIn(r, "C13.flags.loop-carried-flags-are-sticky", 1, "vdr/didsubject")
	// C13-m: "pending" means: still in the change log, however long ago it was written — the sweep, not the clock, decides
	// about an interrupted operation; a later operation never builds on a version the sweep may still remove
	np := p.Func("vdr/didsubject", "", "noPendingChanges")
	key := "C13.pending.age-does-not-unlock"
	rule := "EFFECT: noPendingChanges counts change-log entries without consulting the clock (no time.Now / time.Since in it)"
	if np == nil {
		r.Lost(key, rule, "noPendingChanges not found")
		return
	}
	nClock, nCount := 0, 0
	var pos token.Pos
	for _, f := range WithAnons(np) {
		for _, b := range f.Blocks {
			for _, in := range b.Instrs {
				c, ok := in.(*ssa.Call)
				if !ok {
					continue
				}
				callee := c.Common().StaticCallee()
				if callee == nil || callee.Pkg == nil {
					continue
				}
				if callee.Pkg.Pkg.Path() == "time" && (callee.Name() == "Now" || callee.Name() == "Since" || callee.Name() == "Until") {
					nClock++
					pos = c.Pos()
				}
				if callee.Name() == "Count" {
					nCount++
				}
			}
		}
	}
	r.Sites += nClock + nCount
	switch {
	case nCount == 0:
		r.Lost(key, rule, "no Count query in noPendingChanges (control failed)")
	case nClock > 0:
		r.Bad(key, rule, p.Pos(pos), "the pending test depends on the age of the change")
	default:
		r.OK(key, rule, p.Pos(np.Pos()), "", true)
	}
}

// ---------- C15 ----------

func c15Seed8(r *Report) {
	p := r.P
	// C15-m: behind a TLS terminator the peer's certificate is the ONE value of the configured header: with more than one
	// value the node cannot tell which one the terminator verified (a client can send the header itself)
	au := p.Func("network/transport/grpc", "tlsOffloadingAuthenticator", "authenticate")
	r.Gate(Gate{ID: "C15.tls-offload.exactly-one-certificate-header", Fn: au, Effect: SuccessReturn(),
		Check: CmpCheck("len(values) == 1", token.EQL, LenV(AnyV()), IntV(1), true)})
}

// ---------- C16 ----------

func c16Seed8(r *Report) {
	p := r.P
	// C16-m: the server hands out its log as stored: a client learns that an entry was superseded only by receiving the
	// successor, so the server's Get filters nothing out of what the store returned (expired successors included)
	g := p.Func("discovery", "Module", "Get")
	key := "C16.server.get-returns-the-log-unfiltered"
	rule := "OWN: Module.Get removes nothing from the presentations the store returned (no delete / map update / re-slicing in it)"
	if g == nil {
		r.Lost(key, rule, "Module.Get not found")
		return
	}
	nGet := len(Calls(g, Fn("discovery", "sqlStore", "get")))
	r.Sites += nGet
	if nGet == 0 {
		r.Lost(key, rule, "Module.Get does not call sqlStore.get")
		return
	}
	for _, b := range g.Blocks {
		for _, in := range b.Instrs {
			switch x := in.(type) {
			case *ssa.MapUpdate:
				r.Bad(key, rule, p.Pos(x.Pos()), "the answer is modified after it was read from the store")
				return
			case *ssa.Call:
				if bi, ok := x.Call.Value.(*ssa.Builtin); ok && (bi.Name() == "delete" || bi.Name() == "append") {
					r.Bad(key, rule, p.Pos(x.Pos()), "the answer is filtered ("+bi.Name()+") after it was read from the store")
					return
				}
			}
		}
	}
	r.OK(key, rule, p.Pos(g.Pos()), "", true)
}

// ---------- C17 ----------

func c17Seed8(r *Report) {
	p := r.P
	// C17-m (reported by C06.step.kid-xor-jwk.both only): the verification key of a DAG transaction comes from exactly one
	// place: a transaction with BOTH a kid and an embedded jwk is refused, whatever the two say
	sp := p.Func("network/dag", "", "parseSignatureParams")
	r.Refuse(Refuse{ID: "C17.dag.kid-xor-jwk", Fn: sp, Exists: true, Cond: CmpCheck("signingKeyID != \"\" (jwk present)", token.EQL, FieldV("transaction", "signingKeyID"), StrV(""), false)})
}

// ---------- C18 ----------

func c18Seed8(r *Report) {
	p := r.P
	// C18-m: did:jwk and did:key documents are a pure function of the identifier: the resolver packages keep no state between
	// calls (no package-level map / sync.Map / counter that a Resolve reads or writes)
	for _, pk := range []string{"vdr/didjwk", "vdr/didkey"} {
		key := "C18.pure.no-state-between-resolves." + pk
		rule := "EFFECT: no production function of " + pk + " stores to a package-level variable or reads one of a mutable container type"
		pkg := p.Pkg(pk)
		if pkg == nil {
			r.Lost(key, rule, "package not found")
			continue
		}
		n, bad := 0, ""
		for _, fn := range p.Funcs {
			if fn.Pkg == nil || fn.Pkg.Pkg != pkg.Types || p.FileClass(p.FuncPos(fn)) != "prod" || Outer(fn).Name() == "init" {
				continue
			}
			n++
			for _, b := range fn.Blocks {
				for _, in := range b.Instrs {
					if st, ok := in.(*ssa.Store); ok {
						if g, isG := st.Addr.(*ssa.Global); isG {
							bad = p.Pos(st.Pos()) + ": store to " + g.Name()
						}
					}
					for _, op := range in.Operands(nil) {
						if op == nil || *op == nil {
							continue
						}
						if g, isG := (*op).(*ssa.Global); isG && g.Pkg == fn.Pkg {
							ts := g.Type().String()
							if strings.Contains(ts, "sync.") || strings.HasPrefix(ts, "*map[") {
								bad = p.Pos(in.Pos()) + ": use of " + g.Name() + " (" + ts + ")"
							}
						}
					}
				}
			}
		}
		r.Sites += n
		switch {
		case n == 0:
			r.Lost(key, rule, "no production functions")
		case bad != "":
			r.Bad(key, rule, bad, "the resolver keeps state between calls: what a DID resolves to depends on what was resolved before")
		default:
			r.OK(key, rule, "", fmt.Sprintf("%d functions", n), true)
		}
	}
}

// LaterRules: one sentence per property about the obligations added after blind seed rounds 6–8 (appended to the evidence's
// coverage explanation, which is otherwise written per property at the top of its rule file).
var LaterRules = map[string]string{
	"C01": "Added after seed rounds 6-9: ProofOptions.ValidAt answers true only via 'no expiry' or 'not yet expired'.",
	"C02": "Added after seed rounds 6-9: the s2s nonce is looked up and registered under the extracted nonce alone (flow-sensitive value identity); the all-present flag of the nonce check is a sticky loop-carried flag.",
	"C03": "Added after seed rounds 6-9: the key reference is read from the table on every use and the engine holds no process-local map; the DPoP jwk header is set from the signing key on every path; the in-memory signer signs only for its own key id (byte equality).",
	"C04": "Added after seed rounds 6-9: the wildcard address alone makes two listen addresses overlap (bare disjuncts of the result); the RSA key size compared with the minimum is the modulus bit length itself.",
	"C06": "Added after seed rounds 6-9: the recorded key id is the kid header's value and is recorded whenever the header is present; every entry of the prevs header is kept as a reference.",
	"C07": "Added after seed rounds 6-9: the advertised clock never goes down; private transactions are served without their payload; the IBLT fallback goes exactly one page down; a concurrently duplicated delivery is not summarised twice; a list query is answered for every requested ref; loop-carried flags in the transport packages are sticky.",
	"C08": "Added after seed rounds 6-9: the repair replaces a page with the unmodified recomputed root; the whole-tree root answers only a request at or beyond the head; tree.Load forgets all tracked updates; tree.Replace marks the replaced leaf dirty.",
	"C09": "Added after seed rounds 6-9: the DID is compared with the thumbprint as spelled (the field itself); the deactivated flag of a merged version is sticky.",
	"C10": "Added after seed rounds 6-9: the deactivated flag of a version is computed from the transaction's own document; a DID is counted once, at version 0; every delivery of a transaction is applied (no seen-before shortcut); Resolve matches against the caller's metadata as given.",
	"C11": "Added after seed rounds 6-9: revocation is independent of the validation time; the status-list index is compared with nothing but the list's own bound.",
	"C12": "Added after seed rounds 6-9: count/min/max count matched members (the member list is never cut positionally); unfulfilled nested requirements keep an empty slot.",
	"C13": "Added after seed rounds 6-9: 'committed' for did:nuts means head of the store; the pending test does not consult the clock; the sweep's committed flag is sticky.",
	"C14": "Added after seed rounds 6-9: the retry loop has no RetryIf predicate (only the receiver's verdict or the budget end the retries).",
	"C15": "Added after seed rounds 6-9: PAL.Contains is DID equality; behind a TLS terminator exactly one certificate header value is accepted.",
	"C16": "Added after seed rounds 6-9: the client's timestamp follows the last processed answer (also downwards); the server's Get returns the store's answer unfiltered.",
	"C17": "Added after seed rounds 6-9: a DAG transaction with both kid and jwk is refused (also stated under this property).",
	"C18": "Added after seed rounds 6-9: one definition of 'deactivated' in store and resolver; the did:jwk / did:key resolvers keep no package-level state; a migrated history is cut at the deactivating version.",
	"C19": "Added after seed rounds 6-9: detectors D9 (zero value of a failed comma-ok written to / dereferenced) and D10 (nil-on-failure standard-library result dereferenced).",
}
