package props

import (
	"fmt"
	"go/token"
	"go/types"
	"sort"
	"strings"

	"golang.org/x/tools/go/ssa"

	. "verifcheck/an"
)

func init() { Registry["C07"] = c07 }

const v2Pkg = "network/transport/v2"

func c07(r *Report) {
	defer c07Seed9(r)
	defer c07Seed8(r)
	defer c07Seed7(r)
	defer c07Seed5(r)
	defer c07Seed6(r)
	p := r.P
	r.Explanation = "The convergence statement itself (finitely many rounds, all DAG pairs, all schedules with a fair suffix) is NOT decided: it quantifies over message schedules and set contents. Decided are its safety clauses and the structural necessary conditions for progress that are visible in the shape of the handlers: (a) safety — received lists/sets touch state only after the conversation check; the conversation check accepts only a known conversation whose request-specific membership/range/LC test passes; transactions enter only through State.Add (whose validation is C06) and a public transaction without payload is refused; nothing in the protocol deletes from the transaction shelves; payloads are written only when they hash to the transaction's payload hash; (b) progress — every envelope type is dispatched to the handler that consumes it; each reconciliation handler ends silently only in its in-sync / peer-is-behind branch (every other non-error exit sends a follow-up request); a list with missing prevs restarts reconciliation via State; IBLT decode failure falls back to a range query or a lower State page; responses echo the request's conversation id; requests are sent only after registering the conversation and with the registered message; an expired conversation never blocks a new one; the advertised XOR/clock is refreshed on every enqueue (also when the ref is dropped for a full queue); the range-query requester never asks more pages than the responder serves."
	r.NotDecided = []string{"convergence in finitely many rounds under fair delivery (liveness over schedules)", "IBLT decode capacity / XOR algebra", "behaviour of the gossip timer and gRPC back-pressure"}

	c07Dispatch(r)

	// ---- safety: conversation check gates state ----
	htl := p.Func(v2Pkg, "protocol", "handleTransactionList")
	hts := p.Func(v2Pkg, "protocol", "handleTransactionSet")
	cmCheck := ErrCheck(Fn(v2Pkg, "conversationManager", "check"))
	stateAdd := CallEffect(p.FnOrImpl("network/dag", "State", "Add"))
	r.Gate(Gate{ID: "C07.list.conversation-check", Fn: htl, Effect: stateAdd, Check: cmCheck})
	r.Gate(Gate{ID: "C07.list.conversation-check.done", Fn: htl, Effect: CallEffect(AnyOf(Fn(v2Pkg, "conversationManager", "done"), Fn(v2Pkg, "conversationManager", "resetTimeout"))), Check: cmCheck})
	followUps := AnyOf(p.FnOrImpl(v2Pkg, "messageSender", "sendTransactionListQuery"), p.FnOrImpl(v2Pkg, "messageSender", "sendTransactionRangeQuery"), p.FnOrImpl(v2Pkg, "messageSender", "sendState"), Fn(v2Pkg, "conversationManager", "done"))
	r.Gate(Gate{ID: "C07.set.conversation-check", Fn: hts, Effect: CallEffect(followUps), Check: cmCheck, MinEffects: 5})
	r.Gate(Gate{ID: "C07.list.parse", Fn: htl, Effect: stateAdd, Check: ErrCheck(Fn(v2Pkg, "Envelope_TransactionList", "parseTransactions"))})
	// public transaction without payload is refused
	r.Own(OwnSpec{ID: "C07.admission-only-via-State.Add", Op: "add a transaction to the DAG from the v2 protocol", Sites: filterPkg(p.CallSites(p.FnOrImpl("network/dag", "State", "Add"), true), ModPath+"/"+v2Pkg), Owners: map[string]string{"(*network/transport/v2.protocol).handleTransactionList": "the in-order list handler"}, Min: 1})

	cm := p.Func(v2Pkg, "conversationManager", "check")
	r.Gate(Gate{ID: "C07.conversation.known", Fn: cm, Effect: SuccessReturn(), Check: MapOK("conversations")})
	c07CheckTail(r, cm)
	lq := p.Func(v2Pkg, "Envelope_TransactionListQuery", "checkResponse")
	r.Gate(Gate{ID: "C07.checkResponse.listquery.type", Fn: lq, Effect: SuccessReturn(), Check: AssertOK("*github.com/nuts-foundation/nuts-node/network/transport/v2.Envelope_TransactionList")})
	r.Gate(Gate{ID: "C07.checkResponse.listquery.parse", Fn: lq, Effect: SuccessReturn(), Check: ErrCheck(Fn(v2Pkg, "Envelope_TransactionList", "parseTransactions"))})
	r.Gate(Gate{ID: "C07.checkResponse.listquery.requested", Fn: lq, Effect: SuccessReturn(), ForEach: true, Check: MapOK("")})
	rq := p.Func(v2Pkg, "Envelope_TransactionRangeQuery", "checkResponse")
	r.Gate(Gate{ID: "C07.checkResponse.rangequery.type", Fn: rq, Effect: SuccessReturn(), Check: AssertOK("*github.com/nuts-foundation/nuts-node/network/transport/v2.Envelope_TransactionList")})
	r.Gate(Gate{ID: "C07.checkResponse.rangequery.parse", Fn: rq, Effect: SuccessReturn(), Check: ErrCheck(Fn(v2Pkg, "Envelope_TransactionList", "parseTransactions"))})
	clock := CallV(Fn("network/dag", "Transaction", "Clock"), -1)
	r.Gate(Gate{ID: "C07.checkResponse.rangequery.lower", Fn: rq, Effect: SuccessReturn(), ForEach: true, Check: CmpCheck("tx.Clock() < Start is false", token.LSS, clock, FieldV("TransactionRangeQuery", "Start"), false)})
	r.Gate(Gate{ID: "C07.checkResponse.rangequery.upper", Fn: rq, Effect: SuccessReturn(), ForEach: true, Check: CmpCheck("tx.Clock() < End", token.LSS, clock, FieldV("TransactionRangeQuery", "End"), true)})
	sq := p.Func(v2Pkg, "Envelope_State", "checkResponse")
	r.Gate(Gate{ID: "C07.checkResponse.state.type", Fn: sq, Effect: SuccessReturn(), Check: AssertOK("*github.com/nuts-foundation/nuts-node/network/transport/v2.Envelope_TransactionSet")})
	r.Gate(Gate{ID: "C07.checkResponse.state.lcreq", Fn: sq, Effect: SuccessReturn(), Check: CmpCheck("State.LC == TransactionSet.LCReq", token.EQL, FieldV("State", "LC"), FieldV("TransactionSet", "LCReq"), true)})
	c07CheckableSiblings(r)

	// payload admission
	hp := p.Func(v2Pkg, "protocol", "handleTransactionPayload")
	wp := CallEffect(p.FnOrImpl("network/dag", "State", "WritePayload"))
	r.Gate(Gate{ID: "C07.payload.hash-matches", Fn: hp, Effect: wp, Check: CallCheck(Fn("crypto/hash", "SHA256Hash", "Equals"), -1, IsTrue)})
	r.Gate(Gate{ID: "C07.payload.tx-known", Fn: hp, Effect: wp, Check: ErrCheck(p.FnOrImpl("network/dag", "State", "GetTransaction"))})
	r.Own(OwnSpec{ID: "C07.payload-only-via-handler", Op: "write a payload from the v2 protocol", Sites: filterPkg(p.CallSites(p.FnOrImpl("network/dag", "State", "WritePayload"), true), ModPath+"/"+v2Pkg), Owners: map[string]string{"(*network/transport/v2.protocol).handleTransactionPayload": "payload handler (hash-checked)"}, Min: 1})

	// add-only
	var del []Site
	for _, s := range p.CallSites(AnyOf(Fn(stoabsPkg, "Writer", "Delete"), Fn(stoabsPkg, "WriteTx", "DeleteShelf")), true) {
		if strings.HasPrefix(funcPkg(s.Fn), ModPath+"/network/") {
			del = append(del, s)
		}
	}
	r.Own(OwnSpec{ID: "C07.add-only", Op: "delete a key from a network-engine shelf", Sites: del, Owners: map[string]string{
		"(*network/dag.notifier).Finished":          "removes a delivered event from the notifier's own event shelf (not a transaction shelf)",
		"(*network/dag.treeStore).writeWithoutLock": "removes orphaned tree pages of the XOR/IBLT digests (recomputed data, not transactions)",
	}, Min: 2})
	c07StateSurface(r)

	// ---- progress ----
	constNilReturn := InstrEffect("return nil (no follow-up message)", func(in ssa.Instruction) bool {
		ret, ok := in.(*ssa.Return)
		if !ok || len(ret.Results) == 0 {
			return false
		}
		c, ok := ret.Results[len(ret.Results)-1].(*ssa.Const)
		return ok && c.IsNil()
	})
	xorEq := CallCheck(Fn("crypto/hash", "SHA256Hash", "Equals"), -1, IsTrue)
	hg := p.Func(v2Pkg, "protocol", "handleGossip")
	r.Gate(Gate{ID: "C07.progress.gossip-silent-only-in-sync", Fn: hg, Effect: constNilReturn, Check: xorEq})
	hs := p.Func(v2Pkg, "protocol", "handleState")
	r.Gate(Gate{ID: "C07.progress.state-silent-only-in-sync", Fn: hs, Effect: constNilReturn, Check: xorEq})
	setLC := DerivedV(FieldV("TransactionSet", "LC"))
	setLCReq := DerivedV(FieldV("TransactionSet", "LCReq"))
	r.Gate(Gate{ID: "C07.progress.set-silent-only-when-peer-has-no-further-page", Fn: hts, Effect: constNilReturn,
		Check: CmpCheck("page(msg.LC) > page(msg.LCReq) is false", token.LSS, setLCReq, setLC, false)})
	r.MustReach(MustReach{ID: "C07.progress.list-missing-prevs-restarts", Fn: htl, Cond: CallCheck(Fn("std:errors", "", "Is"), -1, IsTrue), Target: p.FnOrImpl(v2Pkg, "messageSender", "sendState")})
	r.MustReach(MustReach{ID: "C07.progress.set-decode-failure-falls-back", Fn: hts, Cond: CallCheck(Fn("std:errors", "", "Is"), -1, IsTrue), Target: AnyOf(p.FnOrImpl(v2Pkg, "messageSender", "sendTransactionRangeQuery"), p.FnOrImpl(v2Pkg, "messageSender", "sendState"))})
	// the fallback State request asks for a strictly lower clock than the page just tried (page start - 1): otherwise it would retry the same page forever
	r.ArgIs("C07.progress.fallback-asks-lower-page", hts, p.FnOrImpl(v2Pkg, "messageSender", "sendState"), 2, SubConstV(CallV(Fn(v2Pkg, "", "pageClockStart"), -1), 1), 1)
	// a peer queue whose ticker was stopped is always forgotten: PeerConnected leaves an existing entry alone (no new
	// ticker), so a kept queue would never gossip again after the reconnect
	unreg := Fn(v2Pkg+"/gossip", "peerQueue", "unregister")
	r.MustReach(MustReach{ID: "C07.progress.stopped-queue-is-forgotten", Fn: p.Func(v2Pkg+"/gossip", "manager", "PeerDisconnected"), After: &unreg,
		Target: Callee{Desc: "delete(m.peers, key)", M: func(cc *ssa.CallCommon) bool { b, ok := cc.Value.(*ssa.Builtin); return ok && b.Name() == "delete" }}})
	// what a gossip message advertises is the state of the DAG when it is SENT (fix: the XOR registered with the queue is read and
	// registered in two steps by concurrent callers and can be stale; a peer whose XOR equals the stale value believes it is in sync)
	sg := p.Func(v2Pkg, "protocol", "sendGossip")
	cur := CallV(p.FnOrImpl("network/dag", "State", "XOR"), -1)
	r.ArgIs("C07.progress.gossip-sends-the-current-xor", sg, Fn(v2Pkg, "protocol", "sendGossipMsg"), 2, VPat{Desc: "the XOR read from the state in sendGossip", M: func(v ssa.Value) bool {
		ex, ok := v.(*ssa.Extract)
		return ok && ex.Index == 0 && cur.M(ex.Tuple) || cur.M(v)
	}}, 1)
	r.ArgIs("C07.progress.gossip-sends-the-current-clock", sg, Fn(v2Pkg, "protocol", "sendGossipMsg"), 3, VPat{Desc: "the clock read from the state in sendGossip", M: func(v ssa.Value) bool {
		ex, ok := v.(*ssa.Extract)
		return ok && ex.Index == 1 && cur.M(ex.Tuple)
	}}, 1)
	// a transaction that cannot be sent in one message is never created (it could never be replicated, nor anything after it)
	ct := p.Func("network", "Network", "CreateTransaction")
	r.Gate(Gate{ID: "C07.progress.created-transaction-fits-a-message", Fn: ct, Effect: CallEffect(p.FnOrImpl("network/dag", "State", "Add")),
		Check: CmpCheck("len(data)+len(payload)+overhead > MaxMessageSizeInBytes is false", token.LSS, VPat{Desc: "grpc.MaxMessageSizeInBytes", M: func(v ssa.Value) bool {
			u, ok := v.(*ssa.UnOp)
			if !ok || u.Op != token.MUL {
				return false
			}
			g, isG := u.X.(*ssa.Global)
			return isG && g.Name() == "MaxMessageSizeInBytes"
		}}, AnyV(), false)})
	// IBLT decode peels a bucket only if it is pure: count is +1 or -1 AND the key's hash equals the bucket's hash sum (a
	// bucket holding 2 own refs and 1 peer ref also has count +1: peeling it reports a ref nobody has and corrupts the rest)
	const treePkg = "network/dag/tree"
	dec := p.Func(treePkg, "Iblt", "Decode")
	peel := CallEffect(AnyOf(Fn(treePkg, "Iblt", "Delete"), Fn(treePkg, "Iblt", "Insert")))
	r.Gate(Gate{ID: "C07.iblt.peel-only-if-hash-matches", Fn: dec, Effect: peel,
		Check: CmpCheck("hashKey(bucket.keySum) == bucket.hashSum", token.EQL, CallV(Fn(treePkg, "Iblt", "hashKey"), -1), FieldV("bucket", "hashSum"), true)})
	r.Gate(Gate{ID: "C07.iblt.peel-only-if-count-is-one", Fn: dec, Effect: peel,
		Check: CmpCheck("bucket.count == 1", token.EQL, FieldV("bucket", "count"), IntV(1), true),
		Alt:   []Check{CmpCheck("bucket.count == -1", token.EQL, FieldV("bucket", "count"), IntV(-1), true)}})
	c07ErrorsIsArg(r, htl, "ErrPreviousTransactionMissing")
	c07ErrorsIsArg(r, hts, "ErrDecodeNotPossible")

	// responders echo the conversation id of the request
	c07EchoCID(r, p.Func(v2Pkg, "protocol", "handleTransactionListQuery"), "sendTransactionList", "TransactionListQuery")
	c07EchoCID(r, p.Func(v2Pkg, "protocol", "handleTransactionRangeQuery"), "sendTransactionList", "TransactionRangeQuery")
	c07EchoCID(r, hs, "sendTransactionSet", "State")

	// requesters: register, then send the registered message
	for _, name := range []string{"sendTransactionListQuery", "sendTransactionRangeQuery", "sendState"} {
		c07Requester(r, p.Func(v2Pkg, "protocol", name))
	}
	hac := p.Func(v2Pkg, "conversationManager", "hasActiveConversation")
	r.Gate(Gate{ID: "C07.progress.expired-conversation-does-not-block", Fn: hac, Effect: ReturnsBool(0, true), Check: TimeOrder("time.Now() is before conversation.expiry", NowV(), FieldV("conversation", "expiry"), IsTrue)})
	c07GossipQueue(r)
	c07Heartbeat(r)
	c07RangeAgreement(r, hts)
}

func filterPkg(sites []Site, pkg string) []Site {
	var out []Site
	for _, s := range sites {
		if funcPkg(s.Fn) == pkg {
			out = append(out, s)
		}
	}
	return out
}

// c07Dispatch: the set of concrete envelope message types equals the set of cases of protocol.handle, and each
// case hands the envelope to a handler that consumes that same type.
func c07Dispatch(r *Report) {
	p := r.P
	rule := "TABLE: every type implementing isEnvelope_Message has a case in (*protocol).handle, whose handler reads that same message type"
	pk := p.Pkg(v2Pkg)
	h := p.Func(v2Pkg, "protocol", "handle")
	if pk == nil || h == nil {
		r.Lost("C07.dispatch", rule, "package or (*protocol).handle not found")
		return
	}
	ifaceObj, _ := pk.Types.Scope().Lookup("isEnvelope_Message").(*types.TypeName)
	if ifaceObj == nil {
		r.Lost("C07.dispatch", rule, "interface isEnvelope_Message not found")
		return
	}
	iface := ifaceObj.Type().Underlying().(*types.Interface)
	impl := map[string]bool{}
	for _, n := range pk.Types.Scope().Names() {
		tn, ok := pk.Types.Scope().Lookup(n).(*types.TypeName)
		if !ok || tn == ifaceObj {
			continue
		}
		if _, isIface := tn.Type().Underlying().(*types.Interface); isIface {
			continue
		}
		if types.Implements(types.NewPointer(tn.Type()), iface) {
			impl[n] = true
		}
	}
	// cases: comma-ok type assertions on the envelope message in handle
	caseBlock := map[string]*ssa.BasicBlock{}
	for _, b := range h.Blocks {
		for _, in := range b.Instrs {
			ta, ok := in.(*ssa.TypeAssert)
			if !ok || !ta.CommaOk {
				continue
			}
			n := NamedOf(ta.AssertedType)
			if n == nil {
				continue
			}
			if i := ifOfBlock(b); i != nil {
				caseBlock[n.Obj().Name()] = b.Succs[0]
			}
		}
	}
	r.Sites += len(impl) + len(caseBlock)
	var missing []string
	for n := range impl {
		if caseBlock[n] == nil {
			missing = append(missing, n)
		}
	}
	sort.Strings(missing)
	if len(impl) < 9 {
		r.Lost("C07.dispatch", rule, fmt.Sprintf("only %d envelope message types found", len(impl)))
		return
	}
	if len(missing) > 0 {
		r.Bad("C07.dispatch", rule, p.Pos(h.Pos()), "no case for "+strings.Join(missing, ", "))
		return
	}
	r.OK("C07.dispatch", rule, p.Pos(h.Pos()), fmt.Sprintf("%d message types, %d cases", len(impl), len(caseBlock)), true)

	// per case: the handler bound in the case block (or, for the in-order list channel, in newTransactionListHandler's caller) reads Get<X>
	for n, b := range caseBlock {
		want := "Get" + strings.TrimPrefix(n, "Envelope_")
		key := "C07.dispatch.handler-consumes @ " + n
		rule := "SIBLING: the handler bound to the case reads the message through " + want
		var handler *ssa.Function
		// search the case block and its single-successor chain for a bound-method closure
		seen := map[*ssa.BasicBlock]bool{}
		for cur := b; cur != nil && !seen[cur]; {
			seen[cur] = true
			for _, in := range cur.Instrs {
				if mc, ok := in.(*ssa.MakeClosure); ok {
					handler = boundTarget(p, mc)
				}
			}
			if handler != nil || len(cur.Succs) != 1 {
				break
			}
			cur = cur.Succs[0]
		}
		if handler == nil && n == "Envelope_TransactionList" {
			// in-order channel: the consumer is the function given to newTransactionListHandler
			for _, s := range p.CallSites(Fn(v2Pkg, "", "newTransactionListHandler"), false) {
				if p.FileClass(p.FuncPos(s.Fn)) != "prod" {
					continue
				}
				if mc, ok := StripConv(CallArg(s.Instr.(ssa.CallInstruction).Common(), 1)).(*ssa.MakeClosure); ok {
					handler = boundTarget(p, mc)
				}
			}
			// and the case must put the envelope on that channel
			sends := 0
			for _, bb := range h.Blocks {
				for _, in := range bb.Instrs {
					if sel, ok := in.(*ssa.Select); ok {
						for _, st := range sel.States {
							if st.Dir == types.SendOnly {
								sends++
							}
						}
					}
					if _, ok := in.(*ssa.Send); ok {
						sends++
					}
				}
			}
			if sends == 0 {
				r.Bad(key, rule, p.Pos(h.Pos()), "the TransactionList case does not send the envelope to the list handler channel")
				continue
			}
		}
		r.Sites++
		if handler == nil {
			r.Bad(key, rule, p.Pos(h.Pos()), "no handler bound in the case")
			continue
		}
		if len(Calls(handler, Fn(v2Pkg, "Envelope", want))) == 0 {
			r.Bad(key, rule, p.Pos(handler.Pos()), p.FuncName(handler)+" does not call "+want)
			continue
		}
		r.OK(key, rule, p.Pos(handler.Pos()), p.FuncName(handler), true)
	}
	// the not-supported return is reachable only when every assertion failed: follows from the switch form; check it exists
	n := 0
	for _, b := range h.Blocks {
		if ret, ok := b.Instrs[len(b.Instrs)-1].(*ssa.Return); ok {
			if AccessPath(ret.Results[0], 0) != "" && strings.Contains(AccessPath(ret.Results[0], 0), "errMessageNotSupported") {
				n++
			}
		}
	}
	if n != 1 {
		r.Bad("C07.dispatch.default", "TABLE: unknown message types are answered with errMessageNotSupported", p.Pos(h.Pos()), fmt.Sprintf("%d such returns", n))
	} else {
		r.OK("C07.dispatch.default", "TABLE: unknown message types are answered with errMessageNotSupported", p.Pos(h.Pos()), "1 default return", false)
	}
}

func ifOfBlock(b *ssa.BasicBlock) *ssa.If {
	if len(b.Instrs) == 0 {
		return nil
	}
	i, _ := b.Instrs[len(b.Instrs)-1].(*ssa.If)
	return i
}

// boundTarget resolves a bound-method closure (p.handleX) to the method's function.
func boundTarget(p *Prog, mc *ssa.MakeClosure) *ssa.Function {
	f, ok := mc.Fn.(*ssa.Function)
	if !ok {
		return nil
	}
	if strings.HasSuffix(f.Name(), "$bound") {
		if m, ok := f.Object().(*types.Func); ok {
			return p.SSA.FuncValue(m)
		}
	}
	return f
}

// c07CheckTail: conversationManager.check returns the result of the request's checkResponse (not nil) on the found branch.
func c07CheckTail(r *Report, cm *ssa.Function) {
	rule := "ARG: conversationManager.check returns the stored request's checkResponse verdict as its error"
	key := "C07.conversation.verdict-returned"
	if cm == nil {
		r.Lost(key, rule, "function not found")
		return
	}
	n := 0
	for _, b := range cm.Blocks {
		ret, ok := b.Instrs[len(b.Instrs)-1].(*ssa.Return)
		if !ok {
			continue
		}
		e := Unspill(ret.Results[len(ret.Results)-1])
		if _, isLoad := e.(*ssa.UnOp); isLoad {
			continue // recover block: returns the zero-initialised cells only after a panic
		}
		if c, ok := e.(*ssa.Const); ok && c.IsNil() {
			r.Bad(key, rule, r.P.Pos(ret.Pos()), "a return with a constant nil error exists")
			return
		}
		if c, ok := StripConv(e).(*ssa.Call); ok && c.Common().IsInvoke() && c.Common().Method.Name() == "checkResponse" {
			n++
		}
	}
	r.Sites += n
	if n == 0 {
		r.Bad(key, rule, r.P.Pos(cm.Pos()), "no return of checkResponse(...)")
		return
	}
	r.OK(key, rule, r.P.Pos(cm.Pos()), fmt.Sprintf("%d tail return(s)", n), true)
}

// c07CheckableSiblings: the set of types implementing `checkable` is exactly the three request types whose
// checkResponse is gated above (a new request type needs its own rule instance).
func c07CheckableSiblings(r *Report) {
	p := r.P
	rule := "SIBLING: every implementation of checkable.checkResponse is one of the gated request types"
	pk := p.Pkg(v2Pkg)
	var names []string
	for _, n := range pk.Types.Scope().Names() {
		tn, ok := pk.Types.Scope().Lookup(n).(*types.TypeName)
		if !ok {
			continue
		}
		if _, isIface := tn.Type().Underlying().(*types.Interface); isIface {
			continue
		}
		ms := types.NewMethodSet(types.NewPointer(tn.Type()))
		for i := 0; i < ms.Len(); i++ {
			if ms.At(i).Obj().Name() == "checkResponse" && p.FileClass(ms.At(i).Obj().Pos()) == "prod" {
				names = append(names, n)
			}
		}
	}
	sort.Strings(names)
	r.Sites += len(names)
	want := "Envelope_State,Envelope_TransactionListQuery,Envelope_TransactionRangeQuery"
	if strings.Join(names, ",") != want {
		r.Bad("C07.checkResponse.siblings", rule, "", "implementations: "+strings.Join(names, ",")+"; gated: "+want)
		return
	}
	r.OK("C07.checkResponse.siblings", rule, "", want, true)
}

func c07StateSurface(r *Report) {
	p := r.P
	rule := "SURFACE: dag.State offers no removing operation"
	pk := p.Pkg("network/dag")
	tn, _ := pk.Types.Scope().Lookup("State").(*types.TypeName)
	if tn == nil {
		r.Lost("C07.add-only.surface", rule, "dag.State not found")
		return
	}
	it := tn.Type().Underlying().(*types.Interface)
	var bad []string
	for i := 0; i < it.NumMethods(); i++ {
		n := strings.ToLower(it.Method(i).Name())
		for _, w := range []string{"delete", "remove", "drop", "prune", "purge", "clear", "reset"} {
			if strings.Contains(n, w) {
				bad = append(bad, it.Method(i).Name())
			}
		}
	}
	r.Sites += it.NumMethods()
	if it.NumMethods() < 10 {
		r.Lost("C07.add-only.surface", rule, "interface unexpectedly small")
		return
	}
	if len(bad) > 0 {
		r.Bad("C07.add-only.surface", rule, p.Pos(tn.Pos()), "methods: "+strings.Join(bad, ", "))
		return
	}
	r.OK("C07.add-only.surface", rule, p.Pos(tn.Pos()), fmt.Sprintf("%d methods", it.NumMethods()), false)
}

func c07ErrorsIsArg(r *Report, fn *ssa.Function, sentinel string) {
	rule := "ARG: the fallback branch tests errors.Is(err, " + sentinel + ")"
	if fn == nil {
		r.Lost("C07.progress.fallback-sentinel", rule, "function not found")
		return
	}
	key := "C07.progress.fallback-sentinel @ " + r.P.FuncName(fn)
	calls := Calls(fn, Fn("std:errors", "", "Is"))
	r.Sites += len(calls)
	if len(calls) != 1 {
		r.Bad(key, rule, r.P.Pos(fn.Pos()), fmt.Sprintf("%d errors.Is calls", len(calls)))
		return
	}
	a := AccessPath(CallArg(calls[0].Common(), 1), 0)
	if !strings.Contains(a, sentinel) {
		r.Bad(key, rule, r.P.Pos(calls[0].Pos()), "tested against "+a)
		return
	}
	r.OK(key, rule, r.P.Pos(calls[0].Pos()), a, false)
}

// c07EchoCID: every call of sender.<send> in fn passes a conversation id derived from <msgType>.ConversationID.
func c07EchoCID(r *Report, fn *ssa.Function, send, msgType string) {
	rule := "ARG: the response carries the conversation id of the request (" + msgType + ".ConversationID)"
	if fn == nil {
		r.Lost("C07.progress.echo-conversation-id", rule, "function not found")
		return
	}
	key := "C07.progress.echo-conversation-id @ " + r.P.FuncName(fn)
	calls := Calls(fn, r.P.FnOrImpl(v2Pkg, "messageSender", send))
	r.Sites += len(calls)
	if len(calls) == 0 {
		r.Bad(key, rule, r.P.Pos(fn.Pos()), "no "+send+" call")
		return
	}
	for _, c := range calls {
		a := CallArg(c.Common(), 1)
		if !DerivedV(FieldV(msgType, "ConversationID")).M(a) {
			r.Bad(key, rule, r.P.Pos(c.Pos()), "conversation id argument is "+AccessPath(a, 0))
			return
		}
	}
	r.OK(key, rule, r.P.Pos(fn.Pos()), fmt.Sprintf("%d %s call(s)", len(calls), send), true)
}

// c07Requester: Send only after startConversation returned a conversation, and the sent envelope wraps the registered message.
func c07Requester(r *Report, fn *ssa.Function) {
	if fn == nil {
		r.Lost("C07.progress.requester", "GATE", "function not found")
		return
	}
	p := r.P
	start := Fn(v2Pkg, "conversationManager", "startConversation")
	send := p.FnOrImpl("network/transport/grpc", "Connection", "Send")
	r.Gate(Gate{ID: "C07.progress.request-registered-before-send", Fn: fn, Effect: CallEffect(send), Check: CallCheck(start, -1, NonNil)})
	rule := "ARG: the envelope sent wraps the very message registered with startConversation (so the response's conversation id is known)"
	key := "C07.progress.request-is-registered-message @ " + p.FuncName(fn)
	sc := Calls(fn, start)
	sd := Calls(fn, send)
	r.Sites += len(sc) + len(sd)
	if len(sc) != 1 || len(sd) != 1 {
		r.Bad(key, rule, p.Pos(fn.Pos()), fmt.Sprintf("%d startConversation / %d Send calls", len(sc), len(sd)))
		return
	}
	reg := StripConv(CallArg(sc[0].Common(), 0))
	// sent: &Envelope{Message: msg}: find the store into field Message of the allocated envelope
	env := StripConv(CallArg(sd[0].Common(), 1))
	ok := false
	for _, b := range fn.Blocks {
		for _, in := range b.Instrs {
			st, isSt := in.(*ssa.Store)
			if !isSt {
				continue
			}
			fa, isFA := st.Addr.(*ssa.FieldAddr)
			if !isFA || fa.X != env {
				continue
			}
			if StripConv(st.Val) == reg {
				ok = true
			}
		}
	}
	if !ok {
		r.Bad(key, rule, p.Pos(sd[0].Pos()), "the sent envelope's Message is not the value given to startConversation")
		return
	}
	r.OK(key, rule, p.Pos(sd[0].Pos()), "same SSA value", true)
}

func c07GossipQueue(r *Report) {
	p := r.P
	enq := p.Func(v2Pkg+"/gossip", "peerQueue", "enqueue")
	for _, f := range []string{"xor", "clock"} {
		rule := "ORDER: every path through peerQueue.enqueue refreshes the advertised " + f + " (also when the ref is dropped because the queue is full — the XOR comparison is what repairs dropped gossip)"
		key := "C07.progress.gossip-advertises-current-" + f
		if enq == nil {
			r.Lost(key, rule, "peerQueue.enqueue not found")
			continue
		}
		n, ok := StoresOnAllPaths(enq, "peerQueue", f)
		r.Sites += n
		if !ok {
			r.Bad(key, rule, p.Pos(enq.Pos()), fmt.Sprintf("%d store(s) to peerQueue.%s, but a return is reachable without passing one", n, f))
			continue
		}
		r.OK(key, rule, p.Pos(enq.Pos()), fmt.Sprintf("%d store(s), on all paths", n), true)
	}
	// TransactionRegistered enqueues for every peer
	tr := p.Func(v2Pkg+"/gossip", "manager", "TransactionRegistered")
	rule := "ORDER: a registered transaction is enqueued for every connected peer"
	if tr == nil {
		r.Lost("C07.progress.gossip-enqueue-all", rule, "function not found")
		return
	}
	calls := CallsDeep(tr, Fn(v2Pkg+"/gossip", "peerQueue", "enqueue"))
	r.Sites += len(calls)
	inLoop := false
	for _, c := range calls {
		if InnermostLoop(Loops(c.Parent()), c.Block()) != nil {
			inLoop = true
		}
	}
	if !inLoop {
		r.Bad("C07.progress.gossip-enqueue-all", rule, p.Pos(tr.Pos()), "no enqueue call inside the loop over peers")
		return
	}
	r.OK("C07.progress.gossip-enqueue-all", rule, p.Pos(tr.Pos()), "enqueue in the loop over m.peers", false)
}

// c07RangeAgreement: requester span (pages) <= responder limit (pages).
func c07RangeAgreement(r *Report, hts *ssa.Function) {
	p := r.P
	rule := "TABLE: a range query never spans more pages than handleTransactionRangeQuery serves (requester span <= responder limit), so a served range is never silently truncated below what the requester assumes"
	key := "C07.progress.range-span-agreement"
	hrq := p.Func(v2Pkg, "protocol", "handleTransactionRangeQuery")
	if hts == nil || hrq == nil {
		r.Lost(key, rule, "handlers not found")
		return
	}
	// responder: limit := msg.Start + K*dag.PageSize
	limitPages := int64(-1)
	pageSize, _ := p.ConstValue("network/dag", "PageSize")
	var ps int64
	fmt.Sscan(pageSize, &ps)
	for _, b := range hrq.Blocks {
		for _, in := range b.Instrs {
			bin, ok := in.(*ssa.BinOp)
			if !ok || bin.Op != token.ADD {
				continue
			}
			if FieldV("TransactionRangeQuery", "Start").M(bin.X) {
				if c, ok := ConstInt(bin.Y); ok && ps > 0 && c%ps == 0 {
					limitPages = c / ps
				}
			}
		}
	}
	// requester: sendTransactionRangeQuery(conn, pageClockStart(req+a), pageClockStart(req+b))
	maxSpan := int64(-1)
	for _, c := range Calls(hts, p.FnOrImpl(v2Pkg, "messageSender", "sendTransactionRangeQuery")) {
		lo, ok1 := pageOffset(CallArg(c.Common(), 1), ps)
		hi, ok2 := pageOffset(CallArg(c.Common(), 2), ps)
		if !ok1 || !ok2 {
			r.Undecided(key, rule, p.Pos(c.Pos()), "range arguments are not of the form pageClockStart(page+k) / constant: "+AccessPath(CallArg(c.Common(), 1), 0)+", "+AccessPath(CallArg(c.Common(), 2), 0))
			return
		}
		if hi-lo > maxSpan {
			maxSpan = hi - lo
		}
		r.Sites++
	}
	if limitPages < 0 || maxSpan < 0 {
		r.Lost(key, rule, fmt.Sprintf("limit=%d span=%d", limitPages, maxSpan))
		return
	}
	if maxSpan > limitPages {
		r.Bad(key, rule, p.Pos(hts.Pos()), fmt.Sprintf("requester spans %d pages, responder serves %d", maxSpan, limitPages))
		return
	}
	r.OK(key, rule, p.Pos(hrq.Pos()), fmt.Sprintf("requester spans <= %d pages, responder serves %d", maxSpan, limitPages), true)
}

// pageOffset: v is pageClockStart(x + k) -> k ; constant c -> c/pageSize (relative to page 0; only used when both are constants).
func pageOffset(v ssa.Value, ps int64) (int64, bool) {
	v = StripConv(v)
	if c, ok := ConstInt(v); ok && ps > 0 {
		return c / ps, true
	}
	call, ok := v.(*ssa.Call)
	if !ok || !Fn(v2Pkg, "", "pageClockStart").M(call.Common()) {
		return 0, false
	}
	a := call.Common().Args[0]
	if bin, ok := a.(*ssa.BinOp); ok && bin.Op == token.ADD {
		if k, ok := ConstInt(bin.Y); ok {
			return k, true
		}
	}
	return 0, false
}

// c07Heartbeat: the periodic gossip is what carries the XOR that triggers reconciliation after a lost message; it must
// be sent on every tick, whatever the queue holds: every path through callSenders' locked section reaches the loop
// over the senders, the ticker goroutine calls callSenders on every tick, and gossip is sent to whoever is connected.
func c07Heartbeat(r *Report) {
	p := r.P
	rule := "ORDER: every path through callSenders reaches the loop that calls every sender (the heartbeat gossip is unconditional: it is what repairs a lost message)"
	key := "C07.progress.gossip-heartbeat-unconditional"
	cs := p.Func(v2Pkg+"/gossip", "", "callSenders")
	if cs == nil {
		r.Lost(key, rule, "callSenders not found")
		return
	}
	n := 0
	okAll := true
	for _, f := range WithAnons(cs) {
		calls := Calls(f, DynType("SenderFunc"))
		if len(calls) == 0 {
			continue
		}
		n += len(calls)
		loops := Loops(f)
		blocked := map[*ssa.BasicBlock]bool{}
		for _, c := range calls {
			l := InnermostLoop(loops, c.Block())
			if l == nil {
				r.Bad(key, rule, p.Pos(c.Pos()), "the sender is not called in a loop over all senders")
				return
			}
			blocked[l.Header] = true
		}
		if !blocked[f.Blocks[0]] {
			for b := range Reach(f.Blocks[0], EdgeSet{}, blocked) {
				if _, isRet := b.Instrs[len(b.Instrs)-1].(*ssa.Return); isRet {
					okAll = false
					r.Bad(key, rule, p.Pos(blockPosOf(b)), "a return is reachable without reaching the loop over the senders (gossip skipped on some condition)")
					return
				}
			}
		}
	}
	r.Sites += n
	if n == 0 {
		r.Lost(key, rule, "no SenderFunc call in callSenders")
		return
	}
	if okAll {
		r.OK(key, rule, p.Pos(cs.Pos()), fmt.Sprintf("%d sender call site(s), loop reached on all paths", n), true)
	}
	// the ticker goroutine calls callSenders on the tick branch
	pc := p.Func(v2Pkg+"/gossip", "manager", "PeerConnected")
	rule2 := "ORDER: the per-peer ticker goroutine calls callSenders inside its select loop"
	key2 := "C07.progress.gossip-ticker-calls-senders"
	if pc == nil {
		r.Lost(key2, rule2, "PeerConnected not found")
		return
	}
	found := false
	for _, f := range WithAnons(pc) {
		for _, c := range Calls(f, Fn(v2Pkg+"/gossip", "", "callSenders")) {
			if InnermostLoop(Loops(f), c.Block()) != nil {
				found = true
			}
		}
	}
	r.Sites++
	if !found {
		r.Bad(key2, rule2, p.Pos(pc.Pos()), "callSenders is not called in the ticker loop")
		return
	}
	r.OK(key2, rule2, p.Pos(pc.Pos()), "called in the select loop", false)
}

func blockPosOf(b *ssa.BasicBlock) token.Pos {
	for _, in := range b.Instrs {
		if in.Pos().IsValid() {
			return in.Pos()
		}
	}
	return token.NoPos
}
