package props

import (
	"fmt"
	"go/token"
	"strings"

	"golang.org/x/tools/go/ssa"

	. "verifcheck/an"
)

func init() { Registry["C10"] = c10 }

func c10(r *Report) {
	defer c10Seed9(r)
	defer c10Seed8(r)
	defer c10Seed7(r)
	defer c10Seed5(r)
	defer c10Seed6(r)
	p := r.P
	defer c10Audit4(r)
	const ds = "vdr/didnuts/didstore"
	r.Explanation = "Static decision of the determinism clause of order-independent did:nuts resolution: (1) DETERM over every function of the didstore package: each loop that ranges over a Go map is analysed; an append inside such a loop must feed a slice that is sorted (sort.Slice/Strings/...) before it escapes — in the same function after the loop or in every caller after the call — and the loop must contain no fold through a function, callback, first-match return, string concatenation or last-writer-wins store; (2) the event order is total: every constant return of event.before is behind a strict comparison and the remaining return is the transaction-reference comparison (unique tie-break); (3) the ordered event list is written only by insert; (4) deactivation is sticky: the Deactivated flag written when applying a document is the disjunction with the current version's flag; (5) writeEventList recomputes every element's positional MetaRef unconditionally (positions shift after an out-of-order insert); (6) the conflicted-documents counter changes by (conflicted now) - (was on the conflicted shelf): the prior flag is true only behind a non-empty read of that shelf."
	r.NotDecided = []string{"order-independence of the event algebra over all n! arrival orders (an algebraic law of insert/applyFrom over runtime values)", "that entries with equal ids in two parallel documents have equal contents (merge picks the later one)"}

	var fns []*ssa.Function
	for _, fn := range p.Funcs {
		if fn.Pkg != nil && fn.Pkg.Pkg.Path() == ModPath+"/"+ds && fn.Parent() == nil && p.FileClass(p.FuncPos(fn)) == "prod" {
			fns = append(fns, WithAnons(fn)...)
		}
	}
	r.Determ(DetermSpec{IDPrefix: "C10.determ", Funcs: fns, MinLoops: 9,
		Pure: map[string]bool{"String": true, "Equals": true, "Compare": true, "URI": true,
			"github.com/nuts-foundation/nuts-node/vdr/didnuts/util.LDContextToString": true,
			"github.com/nuts-foundation/nuts-node/crypto/hash.ParseHex":               true},
		Reviewed: map[string]string{
			"(*vdr/didnuts/didstore.store).Conflicted": "iterator API over the conflicted-documents cache: hands each entry to a callback; the property orders nothing about this iterator and ConflictedCount is a count",
		}})

	// (2) total order
	before := p.Func(ds, "event", "before")
	clockLess := CmpCheck("e.Clock < other.Clock", token.LSS, FieldV("event", "Clock"), FieldV("event", "Clock"), true)
	r.Gate(Gate{ID: "C10.total-order.constants-behind-strict-comparison", Fn: before, Effect: AnyEffect(ReturnsConstBool(0)),
		Check: clockLess, Alt: []Check{CallCheck(Fn("std:time", "Time", "Before"), -1, IsTrue)}})
	c10TieBreak(r, before)
	// (3) writers of the ordered list
	r.Own(OwnSpec{ID: "C10.own.events", Op: "store to eventList.Events", Sites: p.FieldStores(ds, "eventList", "Events"), Min: 1,
		Owners: map[string]string{"(*vdr/didnuts/didstore.eventList).insert": "ordered insertion", "(*vdr/didnuts/didstore.eventList).copy": "copy helper", "(vdr/didnuts/didstore.eventList).copy": "copy helper"}})
	r.Gate(Gate{ID: "C10.insert.uses-order", Fn: p.Func(ds, "eventList", "insert"), Effect: InstrEffect("swap in insert", func(in ssa.Instruction) bool {
		st, ok := in.(*ssa.Store)
		if !ok {
			return false
		}
		ia, ok := st.Addr.(*ssa.IndexAddr)
		if !ok {
			return false
		}
		// newList[i+1] = newList[i]
		_, isBin := ia.Index.(*ssa.BinOp)
		return isBin
	}), Check: CallCheck(Fn(ds, "event", "before"), -1, IsTrue)})
	c10InsertCoversFront(r, p.Func(ds, "eventList", "insert"))
	// one ordering: the sort keys of an event (Clock, SigningTime, Ref) are compared nowhere but in event.before — a second,
	// hand-written comparison (a "fast path" that looks at clock and time only) is a second, different order
	var cmps []Site
	clockV, timeV, refV := FieldV("event", "Clock"), FieldV("event", "SigningTime"), FieldV("event", "Ref")
	p.EachInstr(func(fn *ssa.Function, in ssa.Instruction) {
		if !strings.Contains(p.FuncName(Outer(fn)), ds+".") {
			return
		}
		switch x := in.(type) {
		case *ssa.BinOp:
			switch x.Op {
			case token.LSS, token.GTR, token.LEQ, token.GEQ, token.EQL, token.NEQ:
				if clockV.M(x.X) || clockV.M(x.Y) {
					cmps = append(cmps, Site{Fn: fn, Instr: in, Pos: in.Pos(), Note: "compares event.Clock"})
				}
			}
		case *ssa.Call:
			f := x.Call.StaticCallee()
			if f == nil || f.Signature.Recv() == nil || len(x.Call.Args) < 2 {
				return
			}
			switch f.Name() {
			case "Before", "After", "Equal", "Compare":
				if f.Pkg != nil && f.Pkg.Pkg.Path() == "time" && (timeV.M(x.Call.Args[0]) || timeV.M(x.Call.Args[1])) {
					cmps = append(cmps, Site{Fn: fn, Instr: in, Pos: in.Pos(), Note: "compares event.SigningTime"})
				}
				if f.Name() == "Compare" && (refV.M(x.Call.Args[0]) || refV.M(x.Call.Args[1])) {
					cmps = append(cmps, Site{Fn: fn, Instr: in, Pos: in.Pos(), Note: "orders by event.Ref"})
				}
			}
		}
	})
	r.Own(OwnSpec{ID: "C10.order.single-comparator", Op: "compare the sort keys of two events", Sites: cmps, Min: 4,
		Owners: map[string]string{"(vdr/didnuts/didstore.event).before": "the one total order"}})
	tb := CallEffect(Fn("std:time", "Time", "Before"))
	r.Gate(Gate{ID: "C10.total-order.time-compared-only-for-equal-clocks.not-greater", Fn: before, Effect: tb, Check: CmpCheck("e.Clock > other.Clock is false", token.LSS, PathV("other.Clock"), PathV("e.Clock"), false)})
	r.Gate(Gate{ID: "C10.total-order.time-compared-only-for-equal-clocks.not-less", Fn: before, Effect: tb, Check: CmpCheck("e.Clock < other.Clock is false", token.LSS, PathV("e.Clock"), PathV("other.Clock"), false)})
	// (4) sticky deactivation
	c10Sticky(r)
	// (5) positional metadata references, (6) conflict counter mirrors the conflicted shelf
	c10MetaRefPositional(r, p.Func(ds, "", "writeEventList"))
	c10ConflictDelta(r, p.Func(ds, "store", "applyFrom"))
	c10TwoPhase(r, p.Func(ds, "store", "Add"))
	// (8) the conflicted shelf is consulted for EVERY insert, also one that sorts before all stored events (fix: only under
	// base != nil, so a creation arriving after two parallel updates counted the DID twice)
	{
		rule := "ORDER: in applyFrom the read of the conflicted shelf dominates every applyEvent call (it is not nested under `base != nil`)"
		key := "C10.conflict-count.shelf-read-on-every-insert"
		af := p.Func(ds, "store", "applyFrom")
		if af == nil {
			r.Lost(key, rule, "applyFrom not found")
		} else {
			key += " @ " + p.FuncName(af)
			name, _ := p.ConstValue(ds, "conflictedShelf")
			var gets []ssa.Instruction
			for _, b := range af.Blocks {
				for _, in := range b.Instrs {
					c, ok := in.(*ssa.Call)
					if !ok || !c.Common().IsInvoke() || c.Common().Method.Name() != "Get" {
						continue
					}
					w, isW := StripConv(c.Common().Value).(*ssa.Call)
					if !isW || !w.Common().IsInvoke() || (w.Common().Method.Name() != "GetShelfWriter" && w.Common().Method.Name() != "GetShelfReader") {
						continue
					}
					if sv, isS := ConstString(w.Common().Args[0]); isS && sv == strings.Trim(name, "\"") {
						gets = append(gets, c)
					}
				}
			}
			applies := Calls(af, Fn(ds, "", "applyEvent"))
			r.Sites += len(gets) + len(applies)
			ok := len(gets) > 0 && len(applies) > 0
			for _, a := range applies {
				dom := false
				for _, g := range gets {
					if InstrDominates(g, a) {
						dom = true
					}
				}
				ok = ok && dom
			}
			if ok {
				r.OK(key, rule, p.Pos(af.Pos()), "the shelf read dominates applyEvent", true)
			} else {
				r.Bad(key, rule, p.Pos(af.Pos()), "applyEvent is reachable without the conflicted shelf having been read (e.g. only read when the new event has a predecessor)")
			}
		}
	}
	// (9) what is written was marshalled successfully (fix: the error was dropped; an unrepresentable signing time wiped the history)
	marshal := ErrCheck(Fn("std:encoding/json", "", "Marshal"))
	put := CallEffect(Callee{Desc: "shelf.Put", M: func(cc *ssa.CallCommon) bool { return cc.IsInvoke() && cc.Method.Name() == "Put" }})
	r.Gate(Gate{ID: "C10.write.event-list-marshalled", Fn: p.Func(ds, "", "writeEventList"), Effect: put, Check: marshal})
	r.Gate(Gate{ID: "C10.write.metadata-marshalled", Fn: p.Func(ds, "", "applyEvent"), Effect: put, Check: marshal})
	// (7) the in-memory copy of a conflicted document is overwritten on every call: its metadata (source transactions,
	// update time) changes even when the merged document hash does not
	r.EveryPath("C10.conflict-cache.always-refreshed", p.Func(ds, "store", "addCachedConflict"), "conflictedDocuments[id] = {document, metadata}", func(in ssa.Instruction) bool {
		mu, ok := in.(*ssa.MapUpdate)
		return ok && FieldV("store", "conflictedDocuments").M(mu.Map)
	})
}

// c10TwoPhase: the document (and its transaction index) is written in its own write transaction, which has committed
// before the transaction that inserts the event and re-applies the list starts: re-applying reads documents back by
// payload hash, and on the Redis backend a write transaction does not see its own writes. Merging the two makes the
// outcome depend on whether the documents of later-sorting events were stored earlier, i.e. on arrival order.
func c10TwoPhase(r *Report, add *ssa.Function) {
	rule := "ORDER: store.Add writes the document in a first write transaction whose success gates the second one (event insert + re-apply); the two are distinct closures"
	key := "C10.add.two-phase-write"
	if add == nil {
		r.Lost(key, rule, "store.Add not found")
		return
	}
	write := r.P.FnOrImpl(stoabsPkg, "KVStore", "Write")
	var docW, applyW ssa.CallInstruction
	n := 0
	for _, c := range Calls(add, write) {
		n++
		for _, a := range c.Common().Args {
			mc, ok := StripConv(a).(*ssa.MakeClosure)
			if !ok {
				continue
			}
			cl := mc.Fn.(*ssa.Function)
			hasDoc := len(CallsDeep(cl, Fn("vdr/didnuts/didstore", "", "writeDocument"))) > 0
			hasApply := len(CallsDeep(cl, Fn("vdr/didnuts/didstore", "store", "applyFrom"))) > 0
			if hasDoc && hasApply {
				r.Bad(key, rule, r.P.Pos(c.Pos()), "one write transaction both writes the document and re-applies the event list")
				return
			}
			if hasDoc {
				docW = c
			}
			if hasApply {
				applyW = c
			}
		}
	}
	r.Sites += n
	if docW == nil || applyW == nil {
		r.Lost(key, rule, fmt.Sprintf("%d Write calls; document-writing / re-applying transaction not both found", n))
		return
	}
	g := Gate{Fn: add, Effect: InstrEffect("start the insert/re-apply transaction", func(in ssa.Instruction) bool { return in == ssa.Instruction(applyW) }),
		Check: Check{Desc: "document write transaction err == nil", Call: &write, Result: -1, Pass: ErrNil, Filter: func(ci ssa.CallInstruction) bool { return ci == docW }}}
	res := r.P.RunGate(&g)
	if res.CheckSites == 0 || len(res.Violations) > 0 {
		r.Bad(key, rule, r.P.Pos(applyW.Pos()), "the re-apply transaction can start although the document write transaction did not succeed: "+strings.Join(res.Violations, " || "))
		return
	}
	r.OK(key, rule, r.P.Pos(add.Pos()), "two closures; the second starts only after the first returned nil", true)
}

// c10MetaRefPositional: after an out-of-order insert the positions of later events shift; the metadata record of an
// event is addressed by its position, so writeEventList must recompute MetaRef for every element from its index.
func c10MetaRefPositional(r *Report, fn *ssa.Function) {
	rule := "ORDER: writeEventList assigns every element's MetaRef from its position in the list being written (unconditionally, on every iteration)"
	key := "C10.metaref.positional"
	if fn == nil {
		r.Lost(key, rule, "writeEventList not found")
		return
	}
	var st *ssa.Store
	n := 0
	for _, b := range fn.Blocks {
		for _, in := range b.Instrs {
			s, ok := in.(*ssa.Store)
			if !ok {
				continue
			}
			fa, ok := s.Addr.(*ssa.FieldAddr)
			if ok && fieldIs(fa, "event", "MetaRef") {
				st = s
				n++
			}
		}
	}
	r.Sites += n
	if n != 1 {
		r.Lost(key, rule, "expected exactly one store to event.MetaRef in writeEventList")
		return
	}
	loop := InnermostLoop(Loops(fn), st.Block())
	if loop == nil {
		r.Bad(key, rule, r.P.Pos(st.Pos()), "MetaRef is not assigned inside the loop over the events")
		return
	}
	// the store's block dominates every latch (so no iteration skips it)
	for b := range loop.Body {
		for _, s := range b.Succs {
			if s == loop.Header && !st.Block().Dominates(b) {
				r.Bad(key, rule, r.P.Pos(st.Pos()), "an iteration can reach the next element without assigning MetaRef (conditional assignment)")
				return
			}
		}
	}
	// the element addressed and the value both use the loop's range index
	fa := st.Addr.(*ssa.FieldAddr)
	ia, ok := fa.X.(*ssa.IndexAddr)
	if !ok {
		r.Bad(key, rule, r.P.Pos(st.Pos()), "MetaRef target is not an indexed element")
		return
	}
	idx := ia.Index
	if bin, ok := idx.(*ssa.BinOp); !ok || bin.Block() != loop.Header {
		r.Bad(key, rule, r.P.Pos(st.Pos()), "the element is not addressed by the loop index")
		return
	}
	call, ok := st.Val.(*ssa.Call)
	usesIdx := false
	if ok {
		for _, el := range VariadicElems(call) {
			v := StripConv(el)
			if mi, ok := v.(*ssa.MakeInterface); ok {
				v = mi.X
			}
			if v == idx {
				usesIdx = true
			}
		}
	}
	if !usesIdx {
		r.Bad(key, rule, r.P.Pos(st.Pos()), "the MetaRef value is not computed from the element's index")
		return
	}
	r.OK(key, rule, r.P.Pos(st.Pos()), "unconditional store in the loop; value formatted from the loop index", true)
}

// c10ConflictDelta: the conflicted-documents counter mirrors the cardinality of the conflicted shelf: the flag that
// decides whether it is incremented/decremented must say whether the document was on that shelf before.
func c10ConflictDelta(r *Report, fn *ssa.Function) {
	rule := "ARG: in applyFrom the conflicted counter changes by (is conflicted now) - (was on the conflicted shelf): the prior flag guarding +1/-1 is true exactly behind a non-empty read of the conflicted shelf"
	key := "C10.conflict-count.delta-from-shelf"
	if fn == nil {
		r.Lost(key, rule, "applyFrom not found")
		return
	}
	shelfName, okc := r.P.ConstValue("vdr/didnuts/didstore", "conflictedShelf")
	if !okc {
		r.Lost(key, rule, "constant conflictedShelf not found")
		return
	}
	shelfName = strings.Trim(shelfName, "\"")
	isShelfGet := VPat{Desc: "conflictedShelf.Get(key) bytes", M: func(v ssa.Value) bool {
		ex, ok := v.(*ssa.Extract)
		if !ok || ex.Index != 0 {
			return false
		}
		c, ok := ex.Tuple.(*ssa.Call)
		if !ok || !c.Common().IsInvoke() || c.Common().Method.Name() != "Get" {
			return false
		}
		w, ok := StripConv(c.Common().Value).(*ssa.Call)
		if !ok || !w.Common().IsInvoke() || (w.Common().Method.Name() != "GetShelfWriter" && w.Common().Method.Name() != "GetShelfReader") {
			return false
		}
		s, ok := ConstString(w.Common().Args[0])
		return ok && s == shelfName
	}}
	// the +1 / -1 on a uint32
	var guards []ssa.Value
	n := 0
	for _, b := range fn.Blocks {
		for _, in := range b.Instrs {
			bin, ok := in.(*ssa.BinOp)
			if !ok || (bin.Op != token.ADD && bin.Op != token.SUB) || bin.Type().String() != "uint32" {
				continue
			}
			if c, ok := ConstInt(bin.Y); !ok || c != 1 {
				continue
			}
			n++
			// guard: the If of the single predecessor
			if len(b.Preds) != 1 {
				r.Bad(key, rule, r.P.Pos(bin.Pos()), "counter update is not directly guarded")
				return
			}
			iff, ok := b.Preds[0].Instrs[len(b.Preds[0].Instrs)-1].(*ssa.If)
			if !ok {
				r.Bad(key, rule, r.P.Pos(bin.Pos()), "counter update is not directly guarded")
				return
			}
			g := iff.Cond
			if u, ok := g.(*ssa.UnOp); ok && u.Op == token.NOT {
				g = u.X
			}
			guards = append(guards, g)
		}
	}
	r.Sites += n
	if n != 2 {
		r.Lost(key, rule, "expected one increment and one decrement of the conflicted counter")
		return
	}
	if guards[0] != guards[1] {
		r.Bad(key, rule, r.P.Pos(fn.Pos()), "increment and decrement are guarded by different flags")
		return
	}
	// helper form: the flag is the result of a same-package function that answers "is there a non-empty entry on the shelf
	// I was given", called with the conflicted shelf
	shelfAnswer := func(v ssa.Value) bool {
		ex, ok := v.(*ssa.Extract)
		if !ok || ex.Index != 0 {
			return false
		}
		call, ok := ex.Tuple.(*ssa.Call)
		if !ok {
			return false
		}
		h := call.Common().StaticCallee()
		if h == nil || h.Pkg != fn.Pkg || len(h.Blocks) == 0 || len(h.Params) != len(call.Common().Args) {
			return false
		}
		undo := BindParams(h, call)
		defer undo()
		okAll, some := true, false
		for _, b := range h.Blocks {
			ret, isRet := b.Instrs[len(b.Instrs)-1].(*ssa.Return)
			if !isRet || len(ret.Results) == 0 {
				continue
			}
			rv := Unspill(ret.Results[0])
			if c, isC := ConstBool(rv); isC && !c {
				continue
			}
			pat := &CmpPat{Op: token.LSS, L: IntV(0), R: LenV(isShelfGet), PassWhen: true}
			if bin, isBin := rv.(*ssa.BinOp); isBin {
				if holds, m := pat.Match(bin); m && holds {
					some = true
					continue
				}
			}
			okAll = false
		}
		return okAll && some
	}
	if shelfAnswer(guards[0]) {
		r.OK(key, rule, r.P.Pos(fn.Pos()), "flag = result of a helper that reports a non-empty read of the conflicted shelf; guards both +1 and -1", true)
		return
	}
	if ph, isPhi := guards[0].(*ssa.Phi); isPhi {
		all := true
		for _, e := range ph.Edges {
			if c, isC := ConstBool(e); isC && !c {
				continue
			}
			if !shelfAnswer(e) {
				all = false
			}
		}
		if all {
			r.OK(key, rule, r.P.Pos(fn.Pos()), "flag = false or the result of a helper that reports a non-empty read of the conflicted shelf; guards both +1 and -1", true)
			return
		}
	}
	phi, ok := guards[0].(*ssa.Phi)
	if !ok {
		r.Bad(key, rule, r.P.Pos(fn.Pos()), "the prior-conflicted flag is "+AccessPath(guards[0], 0)+", not a flag set behind the conflicted-shelf lookup")
		return
	}
	trues := 0
	for i, e := range phi.Edges {
		c, ok := ConstBool(e)
		if !ok {
			r.Bad(key, rule, r.P.Pos(phi.Pos()), "the prior-conflicted flag takes the value "+AccessPath(e, 0)+", which is not derived from the conflicted shelf")
			return
		}
		if !c {
			continue
		}
		trues++
		pred := phi.Block().Preds[i]
		if !FactHolds(pred, token.LSS, IntV(0), LenV(isShelfGet)) {
			r.Bad(key, rule, r.P.Pos(phi.Pos()), "the flag is set to true on a path that is not behind len(conflictedShelf.Get(...)) > 0")
			return
		}
	}
	if trues == 0 {
		r.Bad(key, rule, r.P.Pos(phi.Pos()), "the prior-conflicted flag is never true")
		return
	}
	r.OK(key, rule, r.P.Pos(phi.Pos()), "flag true only behind a non-empty conflicted-shelf read; guards both +1 and -1", true)
}

func c10TieBreak(r *Report, before *ssa.Function) {
	rule := "ARG: the final return of event.before is the transaction-reference comparison (unique tie-break)"
	key := "C10.total-order.tie-break"
	if before == nil {
		r.Lost(key, rule, "event.before not found")
		return
	}
	n := 0
	for _, b := range before.Blocks {
		ret, ok := b.Instrs[len(b.Instrs)-1].(*ssa.Return)
		if !ok {
			continue
		}
		if _, isConst := ret.Results[0].(*ssa.Const); isConst {
			continue
		}
		n++
		bin, ok := ret.Results[0].(*ssa.BinOp)
		cmp := Fn("crypto/hash", "SHA256Hash", "Compare")
		if !ok || !(CallV(cmp, -1).M(bin.X) || CallV(cmp, -1).M(bin.Y)) {
			r.Bad(key, rule, r.P.Pos(ret.Pos()), "non-constant return is not a comparison of Ref.Compare(other.Ref)")
			return
		}
		call := StripConv(bin.X)
		if !CallV(cmp, -1).M(bin.X) {
			call = StripConv(bin.Y)
		}
		c := call.(*ssa.Call)
		if !FieldV("event", "Ref").M(c.Call.Args[0]) || !FieldV("event", "Ref").M(c.Call.Args[1]) {
			r.Bad(key, rule, r.P.Pos(ret.Pos()), "Compare is not applied to the two events' Ref fields")
			return
		}
	}
	r.Sites += n
	if n != 1 {
		r.Bad(key, rule, r.P.Pos(before.Pos()), "expected exactly one non-constant return (the tie-break)")
		return
	}
	r.OK(key, rule, r.P.Pos(before.Pos()), "tie-break on Ref present", true)
}

func c10Sticky(r *Report) { c10StickyAs(r, "C10.sticky-deactivation") }

func c10StickyAs(r *Report, key string) {
	p := r.P
	rule := "ARG: applyDocument sets Deactivated to (new.Deactivated || current.Deactivated)"
	fn := p.Func("vdr/didnuts/didstore", "", "applyDocument")
	if fn == nil {
		r.Lost(key, rule, "applyDocument not found")
		return
	}
	n := 0
	for _, b := range fn.Blocks {
		for _, in := range b.Instrs {
			st, ok := in.(*ssa.Store)
			if !ok || !FieldPathEnds(&ssa.UnOp{Op: token.MUL, X: st.Addr}, "Deactivated") {
				continue
			}
			n++
			leaves := OrLeaves(st.Val)
			cur, nw := false, false
			var other []string
			for _, l := range leaves {
				ap := AccessPath(l, 0)
				switch {
				case FieldV("documentMetadata", "Deactivated").M(l) && strings.Contains(ap, "currentMeta"):
					cur = true
				case FieldV("documentMetadata", "Deactivated").M(l) && strings.Contains(ap, "newMeta"):
					nw = true
				default:
					other = append(other, ap)
				}
			}
			if !cur || !nw || len(other) > 0 {
				r.Bad(key, rule, p.Pos(st.Pos()), fmt.Sprintf("the stored flag is not the disjunction of the new and the current version's flag (current=%v new=%v other=%v)", cur, nw, other))
				return
			}
		}
	}
	r.Sites += n
	if n == 0 {
		r.Lost(key, rule, "no store to Deactivated in applyDocument")
		return
	}
	r.OK(key, rule, p.Pos(fn.Pos()), "disjunction with the current flag", true)
}

// valueSources renders the leaves a value is computed from (through phis, conversions, boolean ops).
func valueSources(v ssa.Value, depth int) string {
	if depth > 5 {
		return "?"
	}
	switch x := v.(type) {
	case *ssa.Const:
		if b, ok := ConstBool(x); ok {
			if b {
				return "const:true"
			}
			return "const:false"
		}
		return "const"
	case *ssa.Phi:
		var parts []string
		for _, e := range x.Edges {
			parts = append(parts, valueSources(e, depth+1))
		}
		return "phi(" + strings.Join(parts, ",") + ")"
	case *ssa.BinOp:
		return "(" + valueSources(x.X, depth+1) + x.Op.String() + valueSources(x.Y, depth+1) + ")"
	case *ssa.UnOp:
		if x.Op == token.MUL {
			if fa, ok := x.X.(*ssa.FieldAddr); ok {
				base := "?"
				switch bx := fa.X.(type) {
				case *ssa.Parameter:
					base = bx.Name()
				case *ssa.Alloc:
					base = bx.Comment
				}
				for i, n := range []string{"Deactivated"} {
					_ = i
					if FieldPathEnds(x, n) {
						return base + "." + n
					}
				}
				return base + ".field"
			}
		}
		return x.Op.String() + valueSources(x.X, depth+1)
	}
	return v.Name()
}

// c10InsertCoversFront: the backwards insertion loop visits every index down to and including 0.
func c10InsertCoversFront(r *Report, fn *ssa.Function) {
	rule := "ORDER: the insertion loop runs from the last index down to and including index 0 (an event that sorts before all others reaches the front)"
	key := "C10.insert.covers-index-0"
	if fn == nil {
		r.Lost(key, rule, "insert not found")
		return
	}
	calls := Calls(fn, Fn("vdr/didnuts/didstore", "event", "before"))
	if len(calls) != 1 {
		r.Lost(key, rule, fmt.Sprintf("%d before() calls in insert", len(calls)))
		return
	}
	l := InnermostLoop(Loops(fn), calls[0].Block())
	if l == nil {
		r.Bad(key, rule, r.P.Pos(calls[0].Pos()), "before() is not called in a loop")
		return
	}
	r.Sites++
	// header: if i >= 0 (spelled i >= 0, 0 <= i, i > -1, -1 < i)
	var cond *ssa.BinOp
	if len(l.Header.Instrs) > 0 {
		if iff, ok := l.Header.Instrs[len(l.Header.Instrs)-1].(*ssa.If); ok {
			cond, _ = iff.Cond.(*ssa.BinOp)
		}
	}
	if cond == nil {
		r.Undecided(key, rule, r.P.Pos(calls[0].Pos()), "loop condition not recognised")
		return
	}
	ok := false
	if c, isC := ConstInt(cond.Y); isC {
		ok = cond.Op == token.GEQ && c == 0 || cond.Op == token.GTR && c == -1
	} else if c, isC := ConstInt(cond.X); isC {
		ok = cond.Op == token.LEQ && c == 0 || cond.Op == token.LSS && c == -1
	}
	if !ok {
		r.Bad(key, rule, r.P.Pos(cond.Pos()), "the loop condition is "+cond.String()+": index 0 is not visited")
		return
	}
	r.OK(key, rule, r.P.Pos(cond.Pos()), "loop runs while i >= 0", true)
}
