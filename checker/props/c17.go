package props

import (
	"fmt"
	"go/token"
	"sort"
	"strings"

	"golang.org/x/tools/go/ssa"

	. "verifcheck/an"
)

func init() { Registry["C17"] = c17 }

var asymAlgs = []string{"ES256", "ES384", "ES512", "PS256", "PS384", "PS512", "EdDSA", "ES256K", "RS256", "RS384", "RS512"}
var forbiddenAlgs = []string{"none", "HS256", "HS384", "HS512", ""}

func c17(r *Report) {
	defer c17Seed8(r)
	defer c17Seed5(r)
	p := r.P
	r.Explanation = "Static decision of the structural conditions for signed-token consumption: (1) closed-world inventory: every JWS/JWT parsing-with-verification primitive of the jwx library (jwt.Parse*, jws.Verify, jws.NewVerifier, Verifier.Verify, WithVerify, WithKeySet, WithKeyProvider, WithInferAlgorithmFromKey) is called only from the vetted consumers; all other code must go through crypto.ParseJWT; (2) each verifying consumer reaches its verify call / success return only through an exactly-one-signature test (or a construction that has exactly one: compact split, '..' split); (3) each consumer's verify is gated by its algorithm allow-list, or takes the algorithm from the resolved key; the allow-list tables contain only asymmetric algorithms (no 'none', no HMAC); (4) the key handed to the verify call comes only from the protocol's source (resolver callback, authorised-keys set, embedded public key that is not private)."
	r.NotDecided = []string{"that the jwx library verifies signatures correctly and over the exact bytes", "that the resolved DID document is the right one (C09/C18)", "go-did's internal unverified envelope parsing of VC/VP JWTs (signature is checked afterwards by the verifier, C01)"}
	r.Assumptions = []string{"jws.Parse of a compact serialisation yields exactly one signature", "jwt.ParseString with a later WithKey/WithVerify option overrides earlier ones (options are appended last in crypto.ParseJWT)", "the OpenID configuration metadata JWT (auth/client/iam.OpenIDConfiguration) and the PKI denylist are not in the property's list of consumed tokens; they are listed owners with their own key sources"}

	// ---------- (1) OWN: primitives
	prims := []struct {
		name   string
		c      Callee
		owners map[string]string
		min    int
	}{
		{"jwt.Parse", Fn(jwtPkg, "", "Parse"), map[string]string{
			"vcr/pe.parseJSONObjectOrStringEnvelope":           "unverified envelope parse (WithVerify(false)); signature verified later by VerifyVP",
			"(auth/client/iam.HTTPClient).OpenIDConfiguration": "metadata JWT, key from DID resolver via KeyProvider",
		}, 2},
		{"jwt.ParseString", Fn(jwtPkg, "", "ParseString"), map[string]string{
			"(http/tokenV2.middlewareImpl).checkConnectionAuthorization": "internal API bearer token",
			"crypto/dpop.Parse": "DPoP proof",
			"crypto.ParseJWT":   "the generic verified JWT parser",
		}, 3},
		{"jwt.ParseInsecure/Reader/Request/Form/Header", AnyOf(Fn(jwtPkg, "", "ParseInsecure"), Fn(jwtPkg, "", "ParseReader"), Fn(jwtPkg, "", "ParseRequest"), Fn(jwtPkg, "", "ParseForm"), Fn(jwtPkg, "", "ParseHeader")), map[string]string{}, 0},
		{"jws.Verify", AnyOf(Fn(jwsPkg, "", "Verify"), Fn(jwsPkg, "", "VerifyAuto"), Fn(jwsPkg, "", "VerifySet")), map[string]string{
			"(*pki.denylistImpl).Update":                  "denylist signed with the pinned key (EdDSA constant)",
			"network/dag.NewTransactionSignatureVerifier": "DAG transaction signature",
		}, 2},
		{"jws.NewVerifier / Verifier.Verify", AnyOf(Fn(jwsPkg, "", "NewVerifier"), Fn(jwsPkg, "Verifier", "Verify")), map[string]string{
			"crypto.ParseJWS":                      "compact JWS verification",
			"(vcr/signature/proof.LDProof).Verify": "JSON-LD proof detached JWS",
		}, 4},
		{"jwt.WithVerify", AnyOf(Fn(jwtPkg, "", "WithVerify"), Fn(jwtPkg, "", "WithVerifyAuto"), Fn(jwsPkg, "", "WithVerifyAuto")), map[string]string{
			"crypto.ParseJWT":                        "WithVerify(true)",
			"vcr/pe.parseJSONObjectOrStringEnvelope": "WithVerify(false): envelope parse only",
		}, 2},
		{"WithKeySet / WithInferAlgorithmFromKey", AnyOf(Fn(jwtPkg, "", "WithKeySet"), Fn(jwsPkg, "", "WithKeySet"), Fn(jwsPkg, "", "WithInferAlgorithmFromKey"), Fn(jwsPkg, "", "WithUseDefault"), Fn(jwsPkg, "", "WithRequireKid")), map[string]string{
			"(http/tokenV2.middlewareImpl).checkConnectionAuthorization": "authorised-keys set",
		}, 2},
		{"WithKeyProvider", AnyOf(Fn(jwtPkg, "", "WithKeyProvider"), Fn(jwsPkg, "", "WithKeyProvider")), map[string]string{
			"(auth/client/iam.HTTPClient).OpenIDConfiguration": "key from DID resolver",
		}, 1},
	}
	for _, pr := range prims {
		r.Own(OwnSpec{ID: "C17.own." + pr.name, Op: "call " + pr.name, Sites: p.CallSites(pr.c, true), Owners: pr.owners, Min: pr.min})
	}
	// consumers of the generic parser (informational ownership: a new consumer must be reviewed for its key source)
	r.Own(OwnSpec{ID: "C17.own.ParseJWT-consumers", Op: "call crypto.ParseJWT", Sites: p.CallSites(Fn("crypto", "", "ParseJWT"), true), Min: 5, Owners: map[string]string{
		"(*vcr/verifier.signatureVerifier).jwtSignature":                    "VC/VP JWT: key resolved from the issuer/holder DID document",
		"(*vcr/issuer.openidHandler).validateProof":                         "OpenID4VCI proof: key resolved by kid",
		"(*auth/services/oauth.authzServer).parseAndValidateJwtBearerToken": "v1 bearer token: key resolved by kid",
		"(*auth/services/oauth.authzServer).IntrospectAccessToken":          "own access token: key from own key store",
		"(auth/api/iam.jar).validate":                                       "authorization request object: key resolved by kid and matched with the client's published key set",
	}})

	// ---------- (2)+(3)+(4) per consumer
	sigLen := LenV(CallV(Fn(jwsPkg, "Message", "Signatures"), -1))
	oneSig := CmpCheck("len(Signatures()) == 1", token.EQL, sigLen, IntV(1), true)

	// crypto.JWTKidAlg / ParseJWT
	kidAlg := p.Func("crypto", "", "JWTKidAlg")
	r.Gate(Gate{ID: "C17.one-signature", Fn: kidAlg, Effect: SuccessReturn(), Check: oneSig})
	r.Gate(Gate{ID: "C17.parse", Fn: kidAlg, Effect: SuccessReturn(), Check: compactParse()})
	compactOnlyEverywhere(r, "C17.compact-only")
	pj := p.Func("crypto", "", "ParseJWT")
	verifyCall := CallEffect(Fn(jwtPkg, "", "ParseString"))
	r.Gate(Gate{ID: "C17.parsejwt.one-signature", Fn: pj, Effect: verifyCall, Check: ErrCheck(Fn("crypto", "", "JWTKidAlg"))})
	r.Gate(Gate{ID: "C17.parsejwt.alg-allowlist", Fn: pj, Effect: verifyCall, Check: CallCheck(Fn("crypto/jwx", "", "IsAlgorithmSupported"), -1, IsTrue)})
	r.Gate(Gate{ID: "C17.parsejwt.key-resolved", Fn: pj, Effect: verifyCall, Check: ErrCheck(DynParam("f"))})
	c17ParseJWTOptions(r, pj)
	r.ReturnsOnly("C17.parsejwt.result-is-verified-token", pj, 0, true, Fn(jwtPkg, "", "ParseString"))

	// dpop.Parse
	dp := p.Func("crypto/dpop", "", "Parse")
	dpVerify := CallEffect(Fn(jwtPkg, "", "ParseString"))
	r.Gate(Gate{ID: "C17.dpop.one-signature", Fn: dp, Effect: dpVerify, Check: oneSig})
	r.Gate(Gate{ID: "C17.dpop.alg-allowlist", Fn: dp, Effect: dpVerify, Check: CallCheck(Fn("std:slices", "", "Contains"), -1, IsTrue)})
	r.Gate(Gate{ID: "C17.dpop.jwk-present", Fn: dp, Effect: dpVerify, Check: CmpCheck("headers.JWK() == nil is false", token.EQL, CallV(Fn(jwsPkg, "Headers", "JWK"), -1), NilV(), false)})
	r.Gate(Gate{ID: "C17.dpop.jwk-not-private", Fn: dp, Effect: dpVerify, Check: CallCheck(Fn("crypto/dpop", "", "jwkIsPrivateKey"), -1, IsFalse)})
	r.Gate(Gate{ID: "C17.dpop.verified", Fn: dp, Effect: SuccessReturn(), Check: ErrCheck(Fn(jwtPkg, "", "ParseString"))})
	c17DpopKeyArgs(r, dp)
	// jwkIsPrivateKey: returns false only if all three private conversions fail
	r.Gate(Gate{ID: "C17.dpop.private-detector", Fn: p.Func("crypto/dpop", "", "jwkIsPrivateKey"), Effect: ReturnsBool(0, false),
		Check: Check{Desc: "jwk.Raw(private key type) fails (all sites)", Call: ptr(Fn(jwkPkg, "Key", "Raw")), Result: -1, Pass: NonNil, MinSite: 3, EachSiteTested: true}, Note: "each Raw() must fail"})
	c17PrivateTargets(r, p.Func("crypto/dpop", "", "jwkIsPrivateKey"))

	// tokenV2
	cis := p.Func("http/tokenV2", "", "credentialIsSecure")
	r.Gate(Gate{ID: "C17.tokenv2.one-signature", Fn: cis, Effect: SuccessReturn(), Check: CmpCheck("secureSignatureCount == 1", token.EQL, AnyV(), IntV(1), true)})
	r.Gate(Gate{ID: "C17.tokenv2.alg-allowlist", Fn: cis, Effect: SuccessReturn(), Check: CallCheck(Fn("http/tokenV2", "", "acceptableSignatureAlgorithm"), -1, IsTrue), ForEach: true})
	mw := p.Func("http/tokenV2", "middlewareImpl", "checkConnectionAuthorization")
	r.Gate(Gate{ID: "C17.tokenv2.secure-before-verify", Fn: mw, Effect: CallEffect(Fn(jwtPkg, "", "ParseString")), Check: ErrCheck(Fn("http/tokenV2", "", "credentialIsSecure"))})

	// DAG
	parse := p.Func("network/dag", "", "ParseTransaction")
	r.Gate(Gate{ID: "C17.dag.one-signature", Fn: parse, Effect: SuccessReturn(), Check: CmpCheck("len(Signatures()) > 1 is false", token.LEQ, sigLen, IntV(1), true)})
	r.Gate(Gate{ID: "C17.dag.nonzero-signature", Fn: parse, Effect: SuccessReturn(), Check: CmpCheck("len(Signatures()) == 0 is false", token.EQL, sigLen, IntV(0), false)})
	r.Gate(Gate{ID: "C17.dag.alg-allowlist", Fn: p.Func("network/dag", "", "parseSigningAlgorithm"), Effect: SuccessReturn(), Check: CallCheck(Fn("network/dag", "", "isAlgoAllowed"), -1, IsTrue)})

	c17StepTableHasAlg(r, parse)
	// v1 access tokens: the verification key is resolved only for a kid whose private key this node holds
	if ia := p.Func("auth/services/oauth", "authzServer", "IntrospectAccessToken"); ia == nil {
		r.Lost("C17.v1token.own-key", "GATE", "authzServer.IntrospectAccessToken not found")
	} else {
		for _, cl := range ia.AnonFuncs {
			res := CallEffect(p.FnOrImpl("vdr/resolver", "KeyResolver", "ResolveKeyByID"))
			r.Gate(Gate{ID: "C17.v1token.own-key.exists", Fn: cl, Effect: res, Check: CallCheck(p.FnOrImpl("crypto", "KeyResolver", "Exists"), 0, IsTrue)})
			r.Gate(Gate{ID: "C17.v1token.own-key.lookup-ok", Fn: cl, Effect: res, Check: ErrCheck(p.FnOrImpl("crypto", "KeyResolver", "Exists"))})
		}
	}
	c17SignedBytes(r, p.Func("vcr/signature/proof", "LDProof", "Verify"), "verified")
	c17SignedBytes(r, p.Func("vcr/signature/proof", "LDProof", "Sign"), "signed")

	// ExtractProtectedHeaders
	r.Gate(Gate{ID: "C17.headers.one-signature", Fn: p.Func("crypto", "", "ExtractProtectedHeaders"), Effect: CallEffect(Fn(jwsPkg, "Headers", "AsMap")), Check: oneSig})

	// ParseJWS
	pjs := p.Func("crypto", "", "ParseJWS")
	vv := CallEffect(Fn(jwsPkg, "Verifier", "Verify"))
	r.Gate(Gate{ID: "C17.parsejws.compact-single", Fn: pjs, Effect: vv, Check: ErrCheck(Fn(jwsPkg, "", "SplitCompact"))})
	r.Gate(Gate{ID: "C17.parsejws.alg-allowlist", Fn: pjs, Effect: vv, Check: CallCheck(Fn("crypto/jwx", "", "IsAlgorithmSupported"), -1, IsTrue)})
	r.Gate(Gate{ID: "C17.parsejws.key-resolved", Fn: pjs, Effect: vv, Check: ErrCheck(DynParam("f"))})
	r.Gate(Gate{ID: "C17.parsejws.verified", Fn: pjs, Effect: SuccessReturn(), Check: ErrCheck(Fn(jwsPkg, "Verifier", "Verify")), ForEach: true})

	// LDProof.Verify
	ld := p.Func("vcr/signature/proof", "LDProof", "Verify")
	r.Gate(Gate{ID: "C17.ldproof.single", Fn: ld, Effect: SuccessReturn(), Check: CmpCheck("len(strings.Split(jws, \"..\")) == 2", token.EQL, LenV(CallV(Fn("std:strings", "", "Split"), -1)), IntV(2), true)})
	// exactly one proof: the single-proof reader decodes the document's whole `proof` member into one proof struct, so an
	// array of proofs (of which only one would be verified) fails to decode instead of being unwrapped
	r.ArgIs("C17.ldproof.whole-proof-member-is-decoded", p.Func("vcr/signature/proof", "SignedDocument", "UnmarshalProofValue"), Fn("std:encoding/json", "", "Marshal"), 0, LookupV(ParamV("d"), "proof"), 1)
	r.Gate(Gate{ID: "C17.ldproof.verified", Fn: ld, Effect: SuccessReturn(), Check: ErrCheck(Fn(jwsPkg, "Verifier", "Verify"))})
	r.Gate(Gate{ID: "C17.ldproof.alg-from-key", Fn: ld, Effect: CallEffect(Fn(jwsPkg, "", "NewVerifier")), Check: ErrCheck(Fn("crypto", "", "SignatureAlgorithm"))})
	c17ArgFrom(r, "C17.ldproof.alg-arg", ld, Fn(jwsPkg, "", "NewVerifier"), 0, CallV(Fn("crypto", "", "SignatureAlgorithm"), 0), "the verifier algorithm is derived from the resolved key, not from the token")
	c17ArgFrom(r, "C17.ldproof.key-arg", ld, Fn(jwsPkg, "Verifier", "Verify"), 2, ParamV("key"), "the verification key is the key parameter")

	// jar.validate: key source
	jarV := p.Func("auth/api/iam", "jar", "validate")
	r.Gate(Gate{ID: "C17.jar.verified", Fn: jarV, Effect: SuccessReturn(), Check: ErrCheck(Fn("crypto", "", "ParseJWT"))})
	r.Gate(Gate{ID: "C17.jar.client-owns-key", Fn: jarV, Effect: SuccessReturn(), Check: OkCheck(Fn(jwkPkg, "Set", "LookupKeyID"))})
	r.Gate(Gate{ID: "C17.jar.key-thumbprint", Fn: jarV, Effect: SuccessReturn(), Check: ErrCheck(Fn("auth/api/iam", "", "compareThumbprint"))})
	r.Gate(Gate{ID: "C17.jar.thumbprint-compare", Fn: p.Func("auth/api/iam", "", "compareThumbprint"), Effect: SuccessReturn(), Check: CallCheck(Fn("std:bytes", "", "Equal"), -1, IsTrue)})

	// DAG verifier key source (also C06)
	sigV := one(anonCalling(p.Func("network/dag", "", "NewTransactionSignatureVerifier"), Fn(jwsPkg, "", "Verify")))
	r.Gate(Gate{ID: "C17.dag.key-embedded-or-resolved", Fn: sigV, Effect: CallEffect(Fn(jwsPkg, "", "Verify")),
		Check: ErrCheck(Fn(jwkPkg, "Key", "Raw")), Alt: []Check{ErrCheck(Fn("vdr/resolver", "NutsKeyResolver", "ResolvePublicKey"))}})
	r.Gate(Gate{ID: "C17.dag.verified", Fn: sigV, Effect: SuccessReturn(), Check: ErrCheck(Fn(jwsPkg, "", "Verify"))})

	// ---------- tables
	r.ConstTable(TableSpec{ID: "C17.algs.jwx-supported", Pkg: "crypto/jwx", Var: "SupportedAlgorithms", Allowed: asymAlgs, Forbidden: forbiddenAlgs, Min: 3})
	r.ConstTable(TableSpec{ID: "C17.algs.dag-allowed", Pkg: "network/dag", Var: "allowedAlgos", Allowed: asymAlgs, Forbidden: forbiddenAlgs, Min: 3})
	elems, pos, err := p.SwitchCasesReturningTrue("http/tokenV2", "acceptableSignatureAlgorithm")
	r.ElemsTable(TableSpec{ID: "C17.algs.tokenv2-acceptable", Var: "acceptableSignatureAlgorithm true-cases", Allowed: asymAlgs, Forbidden: forbiddenAlgs, Min: 3}, p.Pos(pos), elems, err)
	// AddSupportedAlgorithm call sites: constant asymmetric algorithms only
	c17AddSupported(r)
	c17Audit3(r, kidAlg, pj, pjs, dp, cis, mw, sigV)
	// IsAlgorithmSupported returns true only through membership
	r.Gate(Gate{ID: "C17.algs.membership", Fn: p.Func("crypto/jwx", "", "IsAlgorithmSupported"), Effect: ReturnsBool(0, true), Check: CmpCheck("curr == alg", token.EQL, AnyV(), ParamV("alg"), true)})
	// writers of the allow-list
	c17AllowlistWriters(r)
}

func c17ParseJWTOptions(r *Report, pj *ssa.Function) {
	p := r.P
	rule := "ARG: crypto.ParseJWT verifies with jwt.WithKey(alg from the token's single signature, key from the resolver callback) and jwt.WithVerify(true), appended after caller-supplied options"
	key := "C17.parsejwt.options"
	if pj == nil {
		r.Lost(key, rule, "crypto.ParseJWT not found")
		return
	}
	calls := Calls(pj, Fn(jwtPkg, "", "ParseString"))
	if len(calls) != 1 {
		r.Lost(key, rule, fmt.Sprintf("%d jwt.ParseString calls", len(calls)))
		return
	}
	args := calls[0].Common().Args
	elems, _ := AppendChainElems(args[len(args)-1])
	r.Sites += len(elems)
	withKey, withVerify := false, false
	var problems []string
	for _, el := range elems {
		c, ok := StripConv(el).(*ssa.Call)
		if !ok {
			continue
		}
		if Fn(jwtPkg, "", "WithKey").M(c.Common()) {
			a0, a1 := c.Common().Args[0], c.Common().Args[1]
			if !CallV(Fn("crypto", "", "JWTKidAlg"), 1).M(a0) {
				problems = append(problems, "WithKey algorithm is not the alg returned by JWTKidAlg")
			}
			if !CallV(DynParam("f"), 0).M(a1) {
				problems = append(problems, "WithKey key is not the result of the key resolver callback")
			}
			withKey = true
		}
		if Fn(jwtPkg, "", "WithVerify").M(c.Common()) {
			if b, ok := ConstBool(c.Common().Args[0]); !ok || !b {
				problems = append(problems, "WithVerify is not the constant true")
			}
			withVerify = true
		}
	}
	if !withKey {
		problems = append(problems, "no jwt.WithKey option appended")
	}
	if !withVerify {
		problems = append(problems, "no jwt.WithVerify(true) option appended")
	}
	if len(problems) > 0 {
		r.Bad(key, rule, p.Pos(calls[0].Pos()), strings.Join(problems, "; "))
		return
	}
	r.OK(key, rule, p.Pos(calls[0].Pos()), fmt.Sprintf("%d appended options inspected", len(elems)), true)
}

func c17DpopKeyArgs(r *Report, dp *ssa.Function) {
	p := r.P
	rule := "ARG: dpop.Parse verifies with jwt.WithKey(headers.Algorithm(), headers.JWK()) of the single signature's protected headers"
	key := "C17.dpop.key-args"
	if dp == nil {
		r.Lost(key, rule, "dpop.Parse not found")
		return
	}
	n := 0
	for _, ci := range Calls(dp, Fn(jwtPkg, "", "WithKey")) {
		n++
		a := ci.Common().Args
		if !CallV(Fn(jwsPkg, "Headers", "Algorithm"), -1).M(a[0]) || !CallV(Fn(jwsPkg, "Headers", "JWK"), -1).M(a[1]) {
			r.Bad(key, rule, p.Pos(ci.Pos()), "WithKey arguments are not headers.Algorithm()/headers.JWK()")
			return
		}
		for _, av := range a[:2] {
			recv := StripConv(av).(*ssa.Call).Common().Value
			if !CallV(Fn(jwsPkg, "Signature", "ProtectedHeaders"), -1).M(recv) {
				r.Bad(key, rule, p.Pos(ci.Pos()), "the headers the key/algorithm are read from are "+AccessPath(recv, 0)+", not the signature's protected (signed) headers")
				return
			}
		}
	}
	r.Sites += n
	if n != 1 {
		r.Lost(key, rule, fmt.Sprintf("%d WithKey calls", n))
		return
	}
	r.OK(key, rule, p.Pos(dp.Pos()), "1 site", true)
}

// c17ArgFrom: in fn, every call to c has its idx-th argument (receiver excluded) matching pat.
func c17ArgFrom(r *Report, id string, fn *ssa.Function, c Callee, idx int, pat VPat, why string) {
	rule := fmt.Sprintf("ARG: argument %d of %s is %s (%s)", idx, c.Desc, pat.Desc, why)
	if fn == nil {
		r.Lost(id, rule, "function not found")
		return
	}
	key := id + " @ " + r.P.FuncName(fn)
	calls := r.P.CallsNear(fn, c)
	r.Sites += len(calls)
	if len(calls) == 0 {
		r.Lost(key, rule, "no call found")
		return
	}
	for _, ci := range calls {
		a := CallArg(ci.Common(), idx)
		if a == nil || !pat.M(a) {
			r.Bad(key, rule, r.P.Pos(ci.Pos()), "argument does not match")
			return
		}
	}
	r.OK(key, rule, r.P.Pos(fn.Pos()), fmt.Sprintf("%d call(s)", len(calls)), true)
}

func c17AddSupported(r *Report) {
	p := r.P
	rule := "TABLE: every jwx.AddSupportedAlgorithm call adds a constant asymmetric algorithm"
	sites := p.CallSites(Fn("crypto/jwx", "", "AddSupportedAlgorithm"), true)
	var bad []string
	for _, s := range sites {
		ci, ok := s.Instr.(ssa.CallInstruction)
		if !ok {
			bad = append(bad, "function value reference at "+p.Pos(s.Pos))
			continue
		}
		v, ok := ConstString(ci.Common().Args[0])
		okAlg := false
		for _, a := range asymAlgs {
			if a == v {
				okAlg = true
			}
		}
		if !ok || !okAlg {
			bad = append(bad, fmt.Sprintf("%s adds %q", p.Pos(s.Pos), v))
		}
	}
	r.Sites += len(sites)
	if len(bad) > 0 {
		sort.Strings(bad)
		r.Bad("C17.algs.add-supported", rule, "", strings.Join(bad, "; "))
		return
	}
	r.OK("C17.algs.add-supported", rule, "", fmt.Sprintf("%d call sites (build-tag dependent)", len(sites)), false)
}

func c17AllowlistWriters(r *Report) {
	p := r.P
	rule := "OWN: the allow-list variables are written only by their initialiser and AddSupportedAlgorithm"
	for _, g := range []struct{ pkg, name string }{{"crypto/jwx", "SupportedAlgorithms"}, {"network/dag", "allowedAlgos"}} {
		var sites []Site
		sp := p.SSAPkgs[ModPath+"/"+g.pkg]
		if sp == nil {
			r.Lost("C17.own.allowlist."+g.name, rule, "package not found")
			continue
		}
		glob, _ := sp.Members[g.name].(*ssa.Global)
		if glob == nil {
			r.Lost("C17.own.allowlist."+g.name, rule, "variable not found")
			continue
		}
		p.EachInstr(func(fn *ssa.Function, in ssa.Instruction) {
			if st, ok := in.(*ssa.Store); ok && st.Addr == glob {
				sites = append(sites, Site{Fn: fn, Instr: in, Pos: in.Pos()})
			}
			// element writes through the global's slice: IndexAddr on a load of glob
			if ia, ok := in.(*ssa.IndexAddr); ok {
				if u, ok := ia.X.(*ssa.UnOp); ok && u.X == glob {
					for _, ref := range *ia.Referrers() {
						if st, ok := ref.(*ssa.Store); ok && st.Addr == ia {
							sites = append(sites, Site{Fn: fn, Instr: st, Pos: st.Pos()})
						}
					}
				}
			}
		})
		r.Own(OwnSpec{ID: "C17.own.allowlist." + g.name, Op: "write " + g.pkg + "." + g.name, Sites: sites, Min: 1, Classes: []string{"prod", "generated", "testhelper", "mock"},
			Owners: map[string]string{g.pkg + ".init": "initialiser", "crypto/jwx.AddSupportedAlgorithm": "build-tag extension (ES256K)"}})
	}
}

// c17PrivateTargets: the private-JWK detector tries every private key type the JWK library can produce.
func c17PrivateTargets(r *Report, fn *ssa.Function) {
	rule := "TABLE: jwkIsPrivateKey converts the JWK to each of rsa.PrivateKey, ecdsa.PrivateKey and ed25519.PrivateKey"
	key := "C17.dpop.private-detector.types"
	if fn == nil {
		r.Lost(key, rule, "jwkIsPrivateKey not found")
		return
	}
	have := map[string]bool{}
	for _, c := range Calls(fn, Fn(jwkPkg, "Key", "Raw")) {
		a := StripConv(CallArg(c.Common(), 0))
		if mi, ok := a.(*ssa.MakeInterface); ok {
			a = mi.X
		}
		have[a.Type().String()] = true
	}
	r.Sites += len(have)
	var missing []string
	for _, w := range []string{"*crypto/rsa.PrivateKey", "*crypto/ecdsa.PrivateKey", "*crypto/ed25519.PrivateKey"} {
		if !have[w] {
			missing = append(missing, w)
		}
	}
	if len(missing) > 0 {
		r.Bad(key, rule, r.P.Pos(fn.Pos()), "not tried: "+strings.Join(missing, ", "))
		return
	}
	r.OK(key, rule, r.P.Pos(fn.Pos()), "3 private key types", true)
}

// c17StepTableHasAlg: the algorithm allow-list step is part of the parse-step list.
func c17StepTableHasAlg(r *Report, parse *ssa.Function) {
	rule := "TABLE: parseSigningAlgorithm (the algorithm allow-list) is in ParseTransaction's step list"
	key := "C17.dag.alg-step-listed"
	if parse == nil {
		r.Lost(key, rule, "ParseTransaction not found")
		return
	}
	for _, f := range sliceLitFuncs(parse, "transactionParseStep") {
		if f.Name() == "parseSigningAlgorithm" {
			r.Sites++
			r.OK(key, rule, r.P.Pos(parse.Pos()), "listed", true)
			return
		}
	}
	r.Bad(key, rule, r.P.Pos(parse.Pos()), "parseSigningAlgorithm is not in the step list: the allow-list is never consulted")
}

// c17SignedBytes: the bytes that are signed / verified are digest(canonical proof options) || digest(canonical document):
// two different canonicalisations, the second one of the function's document parameter.
func c17SignedBytes(r *Report, fn *ssa.Function, what string) {
	rule := "ARG: the " + what + " bytes are digest(canonicalised proof options) followed by digest(canonicalised document parameter)"
	if fn == nil {
		r.Lost("C17.ldproof.bytes", rule, "function not found")
		return
	}
	key := "C17.ldproof.bytes @ " + r.P.FuncName(fn)
	digest := r.P.FnOrImpl("vcr/signature", "Suite", "CalculateDigest")
	canon := r.P.FnOrImpl("vcr/signature", "Suite", "CanonicalizeDocument")
	ds := Calls(fn, digest)
	r.Sites += len(ds)
	if len(ds) != 2 {
		r.Bad(key, rule, r.P.Pos(fn.Pos()), fmt.Sprintf("%d CalculateDigest calls (expected 2)", len(ds)))
		return
	}
	a0, a1 := CallArg(ds[0].Common(), 0), CallArg(ds[1].Common(), 0)
	if SameExpr(a0, a1, 4) {
		r.Bad(key, rule, r.P.Pos(ds[1].Pos()), "both digests are taken over the same value: the document (or the proof options) is not covered by the signature")
		return
	}
	docSeen, otherSeen := false, false
	for _, a := range []ssa.Value{a0, a1} {
		if !CallV(canon, 0).M(a) {
			r.Bad(key, rule, r.P.Pos(fn.Pos()), "a digest is taken over "+AccessPath(a, 0)+", not over a canonicalised document")
			return
		}
		c := StripConv(a).(*ssa.Extract).Tuple.(*ssa.Call)
		in := CallArg(c.Common(), 0)
		if ParamV("document").M(StripConv(in)) || ParamV("document").M(in) {
			docSeen = true
		} else {
			otherSeen = true
		}
	}
	if !docSeen || !otherSeen {
		r.Bad(key, rule, r.P.Pos(fn.Pos()), "the two digests do not cover the document parameter and the proof options respectively")
		return
	}
	// both feed one append whose result is the payload
	r.OK(key, rule, r.P.Pos(fn.Pos()), "two distinct canonicalisations, one of the document parameter", true)
}
