package props

import (
	"fmt"
	"go/token"
	"go/types"
	"strings"

	"golang.org/x/tools/go/ssa"

	. "verifcheck/an"
)

func init() { Registry["C18"] = c18 }

func c18(r *Report) {
	defer c18Seed9(r)
	defer c18Seed8(r)
	defer c18Seed7(r)
	defer c18Seed5(r)
	p := r.P
	defer c18Audit4(r)
	didPkg := goDid + "/did"
	r.Explanation = "Static decision of the structural conditions that bind a resolved document to its identifier and origin: (1) did:web: Resolve succeeds only via DIDToURL, the HTTP call, a 2xx status, an accepted content type, JSON decoding and document.ID.Equals(id); DIDToURL succeeds only via method 'web', no empty path segment, unescaping, url.Parse, parsed host == unescaped id (no user-info, port smuggling or path in the host) and 'not an IP address', and the URL is built from the constant \"https://\"; the resolver's client is the strict HTTP client; (2) did:jwk and did:key: Resolve is effect-free (no network, storage, clock or randomness in its transitive callees), stores the parameter id into document.ID, and did:jwk refuses private keys; (3) local first: the did:web chain is [own database, web] in that order and the chain moves on only on ErrNotFound; the own-database resolver reaches no network code; (4) a deactivated DID resolves only when the caller allows it (did:web/subject store and did:nuts store)."
	r.NotDecided = []string{"the round-trip law URLToDID(DIDToURL(d)) = d (string algebra)", "HTTP redirects followed by the client", "DNS"}

	// (1) did:web
	wr := p.Func("vdr/didweb", "Resolver", "Resolve")
	ok := ReturnsNonNil(0)
	r.Gate(Gate{ID: "C18.web.method", Fn: wr, Effect: ok, Check: CmpCheck("id.Method == \"web\"", token.EQL, PathV("id.Method"), StrV("web"), true)})
	r.Gate(Gate{ID: "C18.web.url-from-did", Fn: wr, Effect: ok, Check: ErrCheck(Fn("vdr/didweb", "", "DIDToURL"))})
	r.Gate(Gate{ID: "C18.web.http", Fn: wr, Effect: ok, Check: ErrCheck(Fn("core", "HTTPRequestDoer", "Do"))})
	r.Gate(Gate{ID: "C18.web.status-2xx-low", Fn: wr, Effect: ok, Check: CmpCheck("StatusCode >= 200", token.LEQ, IntV(200), FieldV("Response", "StatusCode"), true)})
	r.Gate(Gate{ID: "C18.web.status-2xx-high", Fn: wr, Effect: ok, Check: CmpCheck("StatusCode < 300", token.LSS, FieldV("Response", "StatusCode"), IntV(300), true)})
	r.Gate(Gate{ID: "C18.web.content-type-parsed", Fn: wr, Effect: ok, Check: ErrCheck(Fn("std:mime", "", "ParseMediaType"))})
	c18ContentTypes(r, wr)
	// decoded by the node's own parser for untrusted documents (refuses null methods / empty references, which go-did keeps
	// as nil pointers) or, before that fix, by the document's UnmarshalJSON
	r.Gate(Gate{ID: "C18.web.decoded", Fn: wr, Effect: ok, Check: ErrCheck(Fn("vdr/resolver", "", "ParseDocument")), Alt: []Check{ErrCheck(Fn(didPkg, "Document", "UnmarshalJSON"))}})
	r.Gate(Gate{ID: "C18.web.id-equals", Fn: wr, Effect: ok, Check: CallCheck(Fn(didPkg, "DID", "Equals"), -1, IsTrue)})
	c18IDEqualsArgs(r, wr)
	c18RequestURL(r, wr)
	du := p.Func("vdr/didweb", "", "DIDToURL")
	r.Gate(Gate{ID: "C18.url.method", Fn: du, Effect: ok, Check: CmpCheck("id.Method == \"web\"", token.EQL, PathV("id.Method"), StrV("web"), true)})
	r.Gate(Gate{ID: "C18.url.no-trailing-empty-segment", Fn: du, Effect: ok, Check: CallCheck(Fn("std:strings", "", "HasSuffix"), -1, IsFalse),
		Alt: []Check{CmpCheck("no sub path (Index == -1)", token.EQL, CallV(Fn("std:strings", "", "Index"), -1), IntV(-1), true)}})
	r.Gate(Gate{ID: "C18.url.no-empty-segment", Fn: du, Effect: ok, Check: CallCheck(Fn("std:strings", "", "Contains"), -1, IsFalse),
		Alt: []Check{CmpCheck("no sub path (Index == -1)", token.EQL, CallV(Fn("std:strings", "", "Index"), -1), IntV(-1), true)}})
	r.Gate(Gate{ID: "C18.url.unescape", Fn: du, Effect: ok, Check: ErrCheck(Fn("std:net/url", "", "PathUnescape"))})
	r.Gate(Gate{ID: "C18.url.parse", Fn: du, Effect: ok, Check: ErrCheck(Fn("std:net/url", "", "Parse"))})
	r.Gate(Gate{ID: "C18.url.host-is-id", Fn: du, Effect: ok, Check: CmpCheck("parsedURL.Host == unescapedID", token.EQL, FieldV("URL", "Host"), CallV(Fn("std:net/url", "", "PathUnescape"), 0), true)})
	r.Gate(Gate{ID: "C18.url.not-ip", Fn: du, Effect: ok, Check: CmpCheck("net.ParseIP(hostname) == nil", token.EQL, CallV(Fn("std:net", "", "ParseIP"), -1), NilV(), true)})
	c18HTTPSLiteral(r, du)
	c18StrictClient(r)

	// (2) pure resolvers
	deny := []string{"net", "os", "database/sql", "gorm.io/", "github.com/nuts-foundation/go-stoabs", "math/rand", "crypto/rand", ModPath + "/storage", ModPath + "/http"}
	for _, m := range []string{"didjwk", "didkey"} {
		fn := p.Func("vdr/"+m, "Resolver", "Resolve")
		r.Effect(EffectSpec{ID: "C18.pure." + m, Fn: fn, Deny: deny, DenyF: []string{"time.Now", "crypto/ed25519.GenerateKey", "crypto/ecdsa.GenerateKey", "crypto/rsa.GenerateKey", "crypto/ecdh.(Curve).GenerateKey", "crypto/elliptic.GenerateKey"}, What: "did:" + strings.TrimPrefix(m, "did") + " resolution is a pure function of the identifier"})
		c18IDStored(r, "C18.id-bound."+m, fn)
	}
	// the private-key detector: "no private key" only when the raw key equals the raw public key
	rpk := p.Func("vdr/didjwk", "", "rawPrivateKeyOf")
	r.Gate(Gate{ID: "C18.jwk.private-detector", Fn: rpk, Effect: InstrEffect("return nil, nil (no private key)", func(in ssa.Instruction) bool {
		ret, ok := in.(*ssa.Return)
		return ok && len(ret.Results) == 2 && IsNilConst(Unspill(ret.Results[0])) && IsNilConst(Unspill(ret.Results[1]))
	}), Check: CallCheck(Fn("std:reflect", "", "DeepEqual"), -1, IsTrue)})
	jw := p.Func("vdr/didjwk", "Resolver", "Resolve")
	r.Gate(Gate{ID: "C18.jwk.no-private-key", Fn: jw, Effect: ok, Check: CmpCheck("rawPrivateKey == nil", token.EQL, CallV(Fn("vdr/didjwk", "", "rawPrivateKeyOf"), 0), NilV(), true)})
	r.Gate(Gate{ID: "C18.jwk.method", Fn: jw, Effect: ok, Check: CmpCheck("id.Method == \"jwk\"", token.EQL, PathV("id.Method"), StrV("jwk"), true)})
	r.Gate(Gate{ID: "C18.key.method", Fn: p.Func("vdr/didkey", "Resolver", "Resolve"), Effect: ok, Check: CmpCheck("id.Method == \"key\"", token.EQL, PathV("id.Method"), StrV("key"), true)})

	// (3) local first
	c18Chain(r)
	ch := p.Func("vdr/resolver", "ChainedDIDResolver", "Resolve")
	r.Gate(Gate{ID: "C18.chain.continue-only-on-not-found", Fn: ch, ForEach: true, LoopOnly: true, Check: Check{Desc: "errors.Is(err, ErrNotFound)", Call: ptr(Fn("std:errors", "", "Is")), Result: -1, Pass: IsTrue,
		ArgOK: func(ci ssa.CallInstruction) string {
			if !strings.Contains(AccessPath(ci.Common().Args[1], 0), "ErrNotFound") {
				return "the chain continues on an error other than ErrNotFound (" + AccessPath(ci.Common().Args[1], 0) + ")"
			}
			return ""
		}}})
	// calls such as IsFunctionalResolveError would make the chain fall through on deactivation: only errors.Is may decide
	c18ChainOnlyErrorsIs(r, ch)
	sr := p.Func("vdr/didsubject", "Resolver", "Resolve")
	r.Effect(EffectSpec{ID: "C18.local.no-network", Fn: sr, Deny: []string{"net", "net/http", ModPath + "/http"}, What: "DIDs managed by this node resolve from local storage without network access"})

	// (4) deactivation
	r.Gate(Gate{ID: "C18.deactivated.subject-store", Fn: sr, Effect: ok, Check: CallCheck(Fn("vdr/resolver", "", "IsDeactivated"), -1, IsFalse),
		Alt: []Check{Check{Desc: "metadata.AllowDeactivated", Pass: IsTrue, Values: fieldLoads("ResolveMetadata", "AllowDeactivated")}}})
	c18NutsDeactivated(r)
	// "the latest, non-deactivated version is requested" is false only for explicit metadata
	r.Gate(Gate{ID: "C18.deactivated.nuts-store.nil-metadata-means-latest", Fn: p.Func("vdr/didnuts/didstore", "", "latestNonDeactivatedRequested"), Effect: ReturnsConstBoolVal(0, false),
		Check: CmpCheck("resolveMetadata == nil is false", token.EQL, ParamV("resolveMetadata"), NilV(), false)})
	c18SchemeNeverRewritten(r)
	c18HostSegmentIsWholeHost(r)
	c18X509(r)
	c18AuditFixes(r, wr)
	// the IP test looks at the host name (without port); since the IDNA repair the test is isIPAddress, which maps the name first
	r.ArgIs("C18.url.ip-test-on-hostname", p.Func("vdr/didweb", "", "DIDToURL"), Fn("vdr/didweb", "", "isIPAddress"), 0, CallV(Fn("std:net/url", "URL", "Hostname"), -1), 1)
}

// c18SchemeNeverRewritten: in vdr/didweb no url.URL.Scheme is ever assigned anything but the constant "https"
// (the URL derived from the DID is https by construction in DIDToURL; nothing downgrades it before the request).
func c18SchemeNeverRewritten(r *Report) {
	p := r.P
	rule := "OWN: in vdr/didweb a URL's Scheme is only ever assigned the constant \"https\""
	key := "C18.web.scheme-never-rewritten"
	n := 0
	p.EachInstr(func(fn *ssa.Function, in ssa.Instruction) {
		if fn.Pkg == nil || fn.Pkg.Pkg.Path() != ModPath+"/vdr/didweb" || p.FileClass(p.FuncPos(fn)) != "prod" {
			return
		}
		st, ok := in.(*ssa.Store)
		if !ok {
			return
		}
		fa, ok := st.Addr.(*ssa.FieldAddr)
		if !ok {
			return
		}
		t := fa.X.Type()
		if pt, ok := t.Underlying().(*types.Pointer); ok {
			t = pt.Elem()
		}
		nt, ok := t.(*types.Named)
		if !ok || nt.Obj().Pkg() == nil || nt.Obj().Pkg().Path() != "net/url" || nt.Obj().Name() != "URL" {
			return
		}
		if nt.Underlying().(*types.Struct).Field(fa.Field).Name() != "Scheme" {
			return
		}
		n++
		if s, ok := ConstString(st.Val); !ok || s != "https" {
			r.Bad(key+" @ "+p.FuncName(fn), rule, p.Pos(st.Pos()), "Scheme is assigned "+AccessPath(st.Val, 0))
		}
	})
	r.Sites += n
	r.OK(key, rule, "", fmt.Sprintf("%d assignment(s) of URL.Scheme in vdr/didweb, all \"https\"", n), n > 0)
}

func c18ContentTypes(r *Report, wr *ssa.Function) {
	rule := "TABLE: did:web accepts exactly the content types application/did+ld+json, application/did+json, application/json"
	key := "C18.web.content-types"
	if wr == nil {
		r.Lost(key, rule, "Resolve not found")
		return
	}
	have := map[string]bool{}
	for _, b := range wr.Blocks {
		for _, in := range b.Instrs {
			if bo, ok := in.(*ssa.BinOp); ok && bo.Op == token.EQL {
				if s, ok := ConstString(bo.Y); ok && strings.HasPrefix(s, "application/") {
					have[s] = true
				}
			}
		}
	}
	r.Sites += len(have)
	want := []string{"application/did+ld+json", "application/did+json", "application/json"}
	if len(have) != 3 || !have[want[0]] || !have[want[1]] || !have[want[2]] {
		r.Bad(key, rule, r.P.Pos(wr.Pos()), fmt.Sprintf("accepted content types: %v", have))
		return
	}
	// success only through one of the three comparisons
	r.Gate(Gate{ID: key, Fn: wr, Effect: ReturnsNonNil(0), Check: CmpCheck("ct == application/did+ld+json", token.EQL, AnyV(), StrV(want[0]), true),
		Alt: []Check{CmpCheck("ct == application/did+json", token.EQL, AnyV(), StrV(want[1]), true), CmpCheck("ct == application/json", token.EQL, AnyV(), StrV(want[2]), true)}})
}

func c18IDEqualsArgs(r *Report, wr *ssa.Function) {
	rule := "ARG: the id comparison is document.ID.Equals(id) on the requested identifier (exact DID equality, no decoding or normalisation)"
	key := "C18.web.id-equals-args"
	if wr == nil {
		r.Lost(key, rule, "Resolve not found")
		return
	}
	calls := Calls(wr, Fn(goDid+"/did", "DID", "Equals"))
	r.Sites += len(calls)
	if len(calls) != 1 {
		r.Bad(key, rule, r.P.Pos(wr.Pos()), fmt.Sprintf("%d DID.Equals calls (the id check must be the exact DID comparison)", len(calls)))
		return
	}
	a, b := AccessPath(calls[0].Common().Args[0], 0), AccessPath(calls[0].Common().Args[1], 0)
	// one side is the ID field of the decoded document (a did.Document), the other the requested identifier (parameter id)
	isDocID := func(v ssa.Value) bool { return FieldV("Document", "ID").M(v) }
	isReq := func(v ssa.Value) bool { return ParamV("id").M(v) }
	x, y := calls[0].Common().Args[0], calls[0].Common().Args[1]
	if !(isDocID(x) && isReq(y)) && !(isDocID(y) && isReq(x)) {
		r.Bad(key, rule, r.P.Pos(calls[0].Pos()), "compared values are "+a+" and "+b)
		return
	}
	r.OK(key, rule, r.P.Pos(calls[0].Pos()), a+".Equals("+b+")", true)
}

func c18RequestURL(r *Report, wr *ssa.Function) {
	rule := "ARG: the HTTP request goes to the URL derived from the DID by DIDToURL (plus the did.json suffix)"
	key := "C18.web.request-url"
	if wr == nil {
		r.Lost(key, rule, "Resolve not found")
		return
	}
	nr := Calls(wr, Fn("std:net/http", "", "NewRequest"))
	r.Sites += len(nr)
	if len(nr) != 1 {
		r.Lost(key, rule, "http.NewRequest not found")
		return
	}
	uv := CallArg(nr[0].Common(), 1)
	u := AccessPath(uv, 0)
	// the URL may be computed by a helper of the same package: then every value the helper returns must be DIDToURL(..).String()
	if ex, ok := StripConv(uv).(*ssa.Extract); ok {
		if c, ok := ex.Tuple.(*ssa.Call); ok {
			if h := c.Common().StaticCallee(); h != nil && h.Pkg == wr.Pkg && len(h.Blocks) > 0 {
				all, any := true, false
				for _, b := range h.Blocks {
					if ret, ok := b.Instrs[len(b.Instrs)-1].(*ssa.Return); ok && ex.Index < len(ret.Results) {
						rv := Unspill(ret.Results[ex.Index])
						if cs, isC := ConstString(rv); isC && cs == "" {
							continue // the error return
						}
						ap := AccessPath(rv, 0)
						if strings.Contains(ap, "DIDToURL(") && strings.Contains(ap, "String(") {
							any = true
						} else {
							all = false
						}
					}
				}
				if all && any && ParamV("id").M(c.Common().Args[0]) {
					u = "DIDToURL(id) via " + r.P.FuncName(h) + " … String("
				}
			}
		}
	}
	if !strings.Contains(u, "DIDToURL(id)") || !strings.Contains(u, "String(") {
		r.Bad(key, rule, r.P.Pos(nr[0].Pos()), "request URL is "+u)
		return
	}
	if m, ok := ConstString(CallArg(nr[0].Common(), 0)); !ok || m != "GET" {
		r.Bad(key, rule, r.P.Pos(nr[0].Pos()), "request method is not GET")
		return
	}
	r.OK(key, rule, r.P.Pos(nr[0].Pos()), u, true)
}

func c18HTTPSLiteral(r *Report, du *ssa.Function) {
	rule := "TABLE: the did:web URL handed to url.Parse is the constant \"https://\" followed by the unescaped id and path"
	key := "C18.url.https-literal"
	if du == nil {
		r.Lost(key, rule, "DIDToURL not found")
		return
	}
	ps := Calls(du, Fn("std:net/url", "", "Parse"))
	r.Sites += len(ps)
	if len(ps) != 1 {
		r.Lost(key, rule, "url.Parse not found")
		return
	}
	v := ps[0].Common().Args[0]
	// ("https://" + unescapedID) + unescapedPath
	path := AccessPath(v, 0)
	if !strings.HasPrefix(path, `(("https://"+`) || !strings.Contains(path, "PathUnescape(") {
		r.Bad(key, rule, r.P.Pos(ps[0].Pos()), "parsed URL is "+path)
		return
	}
	r.OK(key, rule, r.P.Pos(ps[0].Pos()), path, true)
}

func c18StrictClient(r *Report) {
	p := r.P
	rule := "OWN: the did:web resolver's HTTP client is the strict client (client.NewWithCache / client.New)"
	key := "C18.web.strict-client"
	fn := p.Func("vdr/didweb", "", "NewResolver")
	if fn == nil {
		r.Lost(key, rule, "NewResolver not found")
		return
	}
	n := len(Calls(fn, Fn("http/client", "", "NewWithCache"))) + len(Calls(fn, Fn("http/client", "", "New")))
	r.Sites += n
	if n != 1 {
		r.Bad(key, rule, p.Pos(fn.Pos()), "the resolver is not constructed with the strict HTTP client")
		return
	}
	// no other production construction of didweb.Resolver with another client
	var lits []Site
	for _, s := range p.FieldStores("vdr/didweb", "Resolver", "HttpClient") {
		if p.FileClass(p.FuncPos(s.Fn)) == "prod" {
			lits = append(lits, s)
		}
	}
	r.Own(OwnSpec{ID: key, Op: "set didweb.Resolver.HttpClient", Sites: lits, Min: 1, Owners: map[string]string{"vdr/didweb.NewResolver": "strict client"}})
}

func c18IDStored(r *Report, id string, fn *ssa.Function) {
	rule := "ARG: the resolved document's ID is the requested identifier (document.ID = id)"
	if fn == nil {
		r.Lost(id, rule, "Resolve not found")
		return
	}
	key := id + " @ " + r.P.FuncName(fn)
	n := 0
	for _, b := range fn.Blocks {
		for _, in := range b.Instrs {
			st, ok := in.(*ssa.Store)
			if !ok {
				continue
			}
			ap := AccessPath(st.Addr, 0)
			if strings.HasSuffix(ap, ".ID") && strings.Contains(ap, "ocument") {
				n++
				if AccessPath(st.Val, 0) != "id" {
					r.Bad(key, rule, r.P.Pos(st.Pos()), "document.ID is set to "+AccessPath(st.Val, 0))
					return
				}
			}
		}
	}
	r.Sites += n
	if n == 0 {
		r.Bad(key, rule, r.P.Pos(fn.Pos()), "no assignment document.ID = id found")
		return
	}
	r.OK(key, rule, r.P.Pos(fn.Pos()), "document.ID = id", true)
}

func c18Chain(r *Report) {
	p := r.P
	rule := "TABLE: the did:web resolver chain is [own database resolver, web resolver] in that order"
	key := "C18.localfirst.chain-order"
	fn := p.Func("vdr", "Module", "Configure")
	if fn == nil {
		r.Lost(key, rule, "vdr.Module.Configure not found")
		return
	}
	// find the slice literal of DIDResolver stored into ChainedDIDResolver.Resolvers
	var elems []string
	for _, f := range WithAnons(fn) {
		for _, b := range f.Blocks {
			for _, in := range b.Instrs {
				st, ok := in.(*ssa.Store)
				if !ok {
					continue
				}
				fa, ok := st.Addr.(*ssa.FieldAddr)
				if !ok || !FieldPathEnds(&ssa.UnOp{Op: token.MUL, X: fa}, "Resolvers") {
					continue
				}
				type ie struct {
					idx int64
					val string
				}
				var ies []ie
				sl, ok := st.Val.(*ssa.Slice)
				if !ok {
					continue
				}
				al, ok := sl.X.(*ssa.Alloc)
				if !ok {
					continue
				}
				for _, ref := range *al.Referrers() {
					ia, ok := ref.(*ssa.IndexAddr)
					if !ok {
						continue
					}
					idx, _ := ConstInt(ia.Index)
					for _, r2 := range *ia.Referrers() {
						if s2, ok := r2.(*ssa.Store); ok {
							ies = append(ies, ie{idx, AccessPath(s2.Val, 0)})
						}
					}
				}
				elems = make([]string, len(ies))
				for _, e := range ies {
					if int(e.idx) < len(elems) {
						elems[e.idx] = e.val
					}
				}
			}
		}
	}
	r.Sites += len(elems)
	if len(elems) != 2 {
		r.Lost(key, rule, fmt.Sprintf("chain literal not recognised (%v)", elems))
		return
	}
	if !strings.Contains(elems[0], "ownedDIDResolver") || !strings.Contains(elems[1], "NewResolver(") {
		r.Bad(key, rule, p.Pos(fn.Pos()), fmt.Sprintf("chain is %v", elems))
		return
	}
	r.OK(key, rule, p.Pos(fn.Pos()), fmt.Sprintf("%v", elems), true)
}

func c18ChainOnlyErrorsIs(r *Report, ch *ssa.Function) {
	rule := "GATE: only errors.Is(err, ErrNotFound) decides whether the chain moves on to the next (network) resolver"
	key := "C18.chain.single-decision"
	if ch == nil {
		r.Lost(key, rule, "ChainedDIDResolver.Resolve not found")
		return
	}
	n := 0
	for _, b := range ch.Blocks {
		for _, in := range b.Instrs {
			c, ok := in.(*ssa.Call)
			if !ok {
				continue
			}
			f := c.Common().StaticCallee()
			if f == nil {
				continue
			}
			n++
			name := f.String()
			if name != "errors.Is" {
				r.Bad(key, rule, r.P.Pos(c.Pos()), "the chain consults "+name)
				return
			}
		}
	}
	r.Sites += n
	r.OK(key, rule, r.P.Pos(ch.Pos()), fmt.Sprintf("%d static call(s), all errors.Is", n), true)
}

func c18NutsDeactivated(r *Report) {
	p := r.P
	const ds = "vdr/didnuts/didstore"
	// a version is returned only if matches() accepts it; matches refuses a deactivated version unless AllowDeactivated
	cl := one(anonCalling(p.Func(ds, "store", "Resolve"), Fn(ds, "", "matches")))
	r.Gate(Gate{ID: "C18.deactivated.nuts-store.returned-only-if-matches", Fn: cl, Effect: SuccessReturn(), Check: CallCheck(Fn(ds, "", "matches"), -1, IsTrue)})
	m := p.Func(ds, "", "matches")
	r.Gate(Gate{ID: "C18.deactivated.nuts-store.matches-refuses-deactivated", Fn: m, Effect: ReturnsBool(0, true),
		Check: Check{Desc: "metadata.Deactivated is false", Pass: IsFalse, Values: fieldLoads("documentMetadata", "Deactivated")},
		Alt:   []Check{Check{Desc: "resolveMetadata.AllowDeactivated", Pass: IsTrue, Values: fieldLoads("ResolveMetadata", "AllowDeactivated")}}})
	// asking for the latest version of a deactivated DID fails instead of returning an older active version
	r.Refuse(Refuse{ID: "C18.deactivated.nuts-store.latest-fails", Fn: cl, Cond: CallCheck(Fn(ds, "", "latestNonDeactivatedRequested"), -1, IsTrue)})
	// walking back to an older version happens only past versions that are active, or deactivated-but-allowed, or not yet in
	// effect at the requested time: the step to the previous version is never taken from a deactivated version that the
	// caller may not see and that was in effect at the requested time
	stepBack := InstrEffect("step to the previous version", func(in ssa.Instruction) bool {
		c, ok := in.(*ssa.Call)
		if !ok {
			return false
		}
		f := c.Common().StaticCallee()
		if f == nil || f.String() != "fmt.Sprintf" {
			return false
		}
		for _, el := range VariadicElems(c) {
			if strings.Contains(AccessPath(el, 0), "Version") {
				return true
			}
		}
		return false
	})
	r.Gate(Gate{ID: "C18.deactivated.nuts-store.no-step-back-past-effective-deactivation", Fn: cl, Effect: stepBack,
		Check: CallCheck(Fn(ds, "", "deactivatedAtRequestedTime"), -1, IsFalse),
		Alt:   []Check{Check{Desc: "metadata.Deactivated is false", Pass: IsFalse, Values: fieldLoads("documentMetadata", "Deactivated")}}})
	dat := p.Func(ds, "", "deactivatedAtRequestedTime")
	r.Gate(Gate{ID: "C18.deactivated.nuts-store.at-time.false-only-for-listed-reasons", Fn: dat, Effect: ReturnsConstBoolVal(0, false),
		Check: CmpCheck("resolveMetadata == nil", token.EQL, ParamV("resolveMetadata"), NilV(), true),
		Alt: []Check{
			Check{Desc: "resolveMetadata.AllowDeactivated", Pass: IsTrue, Values: fieldLoads("ResolveMetadata", "AllowDeactivated")},
			CmpCheck("ResolveTime == nil", token.EQL, FieldV("ResolveMetadata", "ResolveTime"), NilV(), true),
			CmpCheck("Hash != nil", token.EQL, FieldV("ResolveMetadata", "Hash"), NilV(), false),
			CmpCheck("SourceTransaction != nil", token.EQL, FieldV("ResolveMetadata", "SourceTransaction"), NilV(), false)}})
	{
		rule := "ARG: deactivatedAtRequestedTime compares the version's Updated time with the requested ResolveTime"
		key := "C18.deactivated.nuts-store.at-time.updated-vs-requested"
		if dat == nil {
			r.Lost(key, rule, "function not found")
		} else if n := len(TimeOrderSites(dat, FieldV("ResolveMetadata", "ResolveTime"), FieldV("documentMetadata", "Updated"))) + len(TimeOrderSites(dat, FieldV("documentMetadata", "Updated"), FieldV("ResolveMetadata", "ResolveTime"))); n < 1 {
			r.Bad(key, rule, r.P.Pos(dat.Pos()), "no Before/After comparison between metadata.Updated and resolveMetadata.ResolveTime")
		} else {
			r.Sites += n
			r.OK(key, rule, r.P.Pos(dat.Pos()), fmt.Sprintf("%d comparison(s)", n), true)
		}
	}
}

// c18HostSegmentIsWholeHost: the first segment of the did:web identifier URLToDID builds is the percent-encoded Host of
// the URL — host name AND port, exactly as DIDToURL puts it back: a "normalised" host (default port dropped, lower-cased,
// …) maps two different URLs/identifiers onto one and breaks the round trip.
func c18HostSegmentIsWholeHost(r *Report) {
	p := r.P
	rule := "ARG: in URLToDID the text appended to \"did:web:\" is percentEncodeString(u.Host) — the URL's whole host:port"
	fn := p.Func("vdr/didweb", "", "URLToDID")
	if fn == nil {
		r.Lost("C18.url.host-segment-is-whole-host", rule, "URLToDID not found")
		return
	}
	key := "C18.url.host-segment-is-whole-host @ " + p.FuncName(fn)
	n := 0
	for _, b := range fn.Blocks {
		for _, in := range b.Instrs {
			bin, ok := in.(*ssa.BinOp)
			if !ok || bin.Op != token.ADD {
				continue
			}
			if s, isC := ConstString(bin.X); !isC || s != "did:web:" {
				continue
			}
			n++
			call, isCall := StripConv(bin.Y).(*ssa.Call)
			if !isCall || !Fn("vdr/didweb", "", "percentEncodeString").M(call.Common()) || !FieldV("URL", "Host").M(CallArg(call.Common(), 0)) {
				r.Bad(key, rule, p.Pos(bin.Pos()), "the host segment is "+AccessPath(bin.Y, 0))
				return
			}
		}
	}
	r.Sites += n
	if n == 0 {
		r.Lost(key, rule, "no `\"did:web:\" + …` concatenation found")
		return
	}
	r.OK(key, rule, p.Pos(fn.Pos()), "percentEncodeString(u.Host)", true)
}

// c18X509: did:x509 binds the document's key to the identifier through the CA the identifier names: the certificate whose key
// goes into the document must be issued, through certificates of the presented chain, under the certificate whose
// fingerprint is in the DID (fix: the chain was never verified — anyone could present the public CA certificate next to a
// home-made certificate carrying the victim's SAN and resolve the victim's DID to a key of their own).
func c18X509(r *Report) {
	p := r.P
	const x = "vdr/didx509"
	res := p.Func(x, "Resolver", "Resolve")
	ok := ReturnsNonNil(0)
	vc := Fn(x, "", "validateChain")
	r.Gate(Gate{ID: "C18.x509.chain-validated", Fn: res, Effect: ok, Check: ErrCheck(vc)})
	r.Gate(Gate{ID: "C18.x509.ca-of-the-did-in-chain", Fn: res, Effect: ok, Check: ErrCheck(Fn(x, "", "findCertificateByHash"))})
	r.Gate(Gate{ID: "C18.x509.policies", Fn: res, Effect: ok, Check: ErrCheck(Fn(x, "", "validatePolicy"))})
	r.ArgIs("C18.x509.chain-validated.leaf-is-the-document-key-cert", res, vc, 0, CallV(Fn(x, "", "findValidationCertificate"), 0), 1)
	r.ArgIs("C18.x509.chain-validated.root-is-the-ca-of-the-did", res, vc, 1, CallV(Fn(x, "", "findCertificateByHash"), 0), 1)
	r.ArgIs("C18.x509.document-key-is-the-validated-cert", res, Fn(x, "", "createDidDocument"), 1, CallV(Fn(x, "", "findValidationCertificate"), 0), 1)
	r.ArgIs("C18.x509.policies-on-the-validated-cert", res, Fn(x, "", "validatePolicy"), 1, CallV(Fn(x, "", "findValidationCertificate"), 0), 1)
	// validateChain: success only when the walk arrived at the root; a step is taken only to a certificate whose key verifies
	// the current certificate's signature
	vcf := p.Func(x, "", "validateChain")
	rootEq := CallCheck(Fn("std:crypto/x509", "Certificate", "Equal"), -1, IsTrue)
	rootEq.Filter = func(ci ssa.CallInstruction) bool {
		return ParamV("rootCert").M(CallArg(ci.Common(), 0)) || ParamV("rootCert").M(CallArg(ci.Common(), -1))
	}
	r.Gate(Gate{ID: "C18.x509.walk-ends-at-the-root", Fn: vcf, Effect: SuccessReturn(), Check: rootEq})
	rule := "ARG: the issuer the walk steps to is a candidate selected behind candidate.CheckSignature(current…) == nil; no issuer found refuses"
	key := "C18.x509.step-only-to-the-signer"
	if vcf == nil {
		r.Lost(key, rule, "validateChain not found")
		return
	}
	key += " @ " + p.FuncName(vcf)
	n, bad := 0, ""
	for _, b := range vcf.Blocks {
		for _, in := range b.Instrs {
			phi, isPhi := in.(*ssa.Phi)
			if !isPhi || !strings.Contains(phi.Type().String(), "x509.Certificate") {
				continue
			}
			hasNil := false
			for _, e := range phi.Edges {
				if IsNilConst(e) {
					hasNil = true
				}
			}
			if !hasNil {
				continue
			}
			for i, e := range phi.Edges {
				if IsNilConst(e) || e == ssa.Value(phi) {
					continue
				}
				if _, inner := e.(*ssa.Phi); inner {
					continue
				}
				n++
				if !FactHolds(b.Preds[i], token.EQL, CallV(Fn("std:crypto/x509", "Certificate", "CheckSignature"), -1), NilV()) {
					bad = p.Pos(blockPosOf(b.Preds[i]))
				}
			}
		}
	}
	r.Sites += n
	switch {
	case n == 0:
		r.Lost(key, rule, "no selection of an issuer certificate recognised")
	case bad != "":
		r.Bad(key, rule, bad, "a certificate becomes the next issuer without its key having verified the current certificate's signature")
	default:
		r.OK(key, rule, p.Pos(vcf.Pos()), fmt.Sprintf("%d selection(s), each behind CheckSignature == nil", n), true)
	}
	r.Refuse(Refuse{ID: "C18.x509.no-issuer-refuses", Fn: vcf, Cond: CmpCheck("issuer == nil", token.EQL, VPat{Desc: "the selected issuer", M: func(v ssa.Value) bool {
		ph, ok := v.(*ssa.Phi)
		return ok && strings.Contains(ph.Type().String(), "x509.Certificate")
	}}, NilV(), true), Effect: SuccessReturn()})
}

// c18AuditFixes: rules for defects found by the audit round.
func c18AuditFixes(r *Report, wr *ssa.Function) {
	p := r.P
	const hc = "http/client"
	// (a) a redirect is checked like the first request: every http.Client the strict client wraps has a CheckRedirect, the policy
	//     accepts a redirect only to https (or outside strict mode), and the did:web resolver stays on the origin derived from the DID
	rule := "ARG: every http.Client literal built in http/client sets CheckRedirect"
	n, bad := 0, ""
	for _, fn := range p.Funcs {
		if !strings.HasPrefix(p.FuncName(Outer(fn)), hc+".") || p.FileClass(p.FuncPos(fn)) != "prod" {
			continue
		}
		for _, b := range fn.Blocks {
			for _, in := range b.Instrs {
				al, ok := in.(*ssa.Alloc)
				if !ok {
					continue
				}
				nm, isN := al.Type().Underlying().(*types.Pointer).Elem().(*types.Named)
				if !isN || nm.Obj().Name() != "Client" || nm.Obj().Pkg() == nil || nm.Obj().Pkg().Path() != "net/http" {
					continue
				}
				n++
				set := false
				for _, ref := range *al.Referrers() {
					if fa, isFA := ref.(*ssa.FieldAddr); isFA && nm.Underlying().(*types.Struct).Field(fa.Field).Name() == "CheckRedirect" {
						set = true
					}
				}
				if !set {
					bad = p.Pos(al.Pos())
				}
			}
		}
	}
	r.Sites += n
	switch {
	case n < 3:
		r.Lost("C18.redirect.every-client-has-a-policy", rule, fmt.Sprintf("%d http.Client literals in http/client (expected >= 3)", n))
	case bad != "":
		r.Bad("C18.redirect.every-client-has-a-policy", rule, bad, "http.Client without CheckRedirect: Go's default policy follows redirects to any scheme and host")
	default:
		r.OK("C18.redirect.every-client-has-a-policy", rule, "", fmt.Sprintf("%d client literal(s)", n), true)
	}
	cr := p.Func(hc, "", "checkRedirect")
	r.Gate(Gate{ID: "C18.redirect.https-only-in-strict-mode", Fn: cr, Effect: SuccessReturn(), Check: CmpCheck("req.URL.Scheme == \"https\"", token.EQL, FieldV("URL", "Scheme"), StrV("https"), true),
		Alt: []Check{{Desc: "StrictMode is false", Pass: IsFalse, Values: func(fn *ssa.Function) []ssa.Value {
			var out []ssa.Value
			for _, b := range fn.Blocks {
				for _, in := range b.Instrs {
					if u, ok := in.(*ssa.UnOp); ok && u.Op == token.MUL {
						if g, isG := u.X.(*ssa.Global); isG && g.Name() == "StrictMode" {
							out = append(out, u)
						}
					}
				}
			}
			return out
		}}}})
	r.FieldStoredIs("C18.redirect.did-web-stays-on-its-origin", p.Func("vdr/didweb", "", "NewResolver"), "Resolver", "HttpClient", CallV(Fn(hc, "StrictHTTPClient", "SameOriginRedirects"), -1), 1)
	so := p.Func(hc, "StrictHTTPClient", "SameOriginRedirects")
	if so != nil {
		for _, cl := range WithAnons(so) {
			if cl == so {
				continue
			}
			r.Gate(Gate{ID: "C18.redirect.same-origin.host", Fn: cl, Effect: SuccessReturn(), Check: CmpCheck("req.URL.Host == via[0].URL.Host", token.EQL, FieldV("URL", "Host"), FieldV("URL", "Host"), true)})
			r.Gate(Gate{ID: "C18.redirect.same-origin.scheme", Fn: cl, Effect: SuccessReturn(), Check: CmpCheck("req.URL.Scheme == via[0].URL.Scheme", token.EQL, FieldV("URL", "Scheme"), FieldV("URL", "Scheme"), true)})
		}
	} else {
		r.Lost("C18.redirect.same-origin", "GATE", "SameOriginRedirects not found")
	}
	// (b) the escaped form of the path travels with the path: %2F inside a segment stays %2F on the wire
	r.FieldStoredIs("C18.web.escaped-path-kept", wr, "URL", "RawPath", VPat{Desc: "baseURL.EscapedPath() + \"/did.json\"", M: func(v ssa.Value) bool {
		bin, ok := v.(*ssa.BinOp)
		return ok && bin.Op == token.ADD && CallV(Fn("std:net/url", "URL", "EscapedPath"), -1).M(bin.X)
	}}, 1)
	// (c) did:jwk is base64url
	jr := p.Func("vdr/didjwk", "Resolver", "Resolve")
	r.ArgIs("C18.jwk.base64url", jr, Fn("std:encoding/base64", "Encoding", "DecodeString"), -1, VPat{Desc: "base64.RawURLEncoding", M: func(v ssa.Value) bool {
		u, ok := v.(*ssa.UnOp)
		if !ok || u.Op != token.MUL {
			return false
		}
		g, isG := u.X.(*ssa.Global)
		return isG && g.Name() == "RawURLEncoding"
	}}, 1)
	// (d) URLToDID works on the escaped path for every character class
	u2d := p.Func("vdr/didweb", "", "URLToDID")
	r.ArgIs("C18.url.did-from-escaped-path", u2d, Fn("std:strings", "", "CutSuffix"), 0, VPat{Desc: "a value derived from u.EscapedPath()", M: func(v ssa.Value) bool {
		esc := CallV(Fn("std:net/url", "URL", "EscapedPath"), -1)
		for d := 0; d < 4; d++ {
			if esc.M(v) {
				return true
			}
			ex, ok := v.(*ssa.Extract)
			if !ok {
				return false
			}
			c, isC := ex.Tuple.(*ssa.Call)
			if !isC || !Fn("std:strings", "", "CutSuffix").M(c.Common()) {
				return false
			}
			v = c.Call.Args[0]
		}
		return false
	}}, 2)
}
