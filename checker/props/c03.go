package props

import (
	"fmt"
	"go/token"
	"go/types"
	"regexp"
	"sort"
	"strings"

	"golang.org/x/tools/go/ssa"

	. "verifcheck/an"
)

func init() { Registry["C03"] = c03 }

// isPK: private-key carrying static types.
func isPK(t types.Type) bool {
	t = types.Unalias(t)
	s := t.String()
	switch s {
	case "crypto.Signer", "crypto.Decrypter", "*crypto/ecdsa.PrivateKey", "crypto/ecdsa.PrivateKey", "*crypto/rsa.PrivateKey", "crypto/rsa.PrivateKey",
		"crypto/ed25519.PrivateKey", "*crypto/ecdh.PrivateKey", "crypto/ecdh.PrivateKey", "*crypto/ed25519.PrivateKey":
		return true
	}
	return false
}

func c03(r *Report) {
	defer c03Seed8(r)
	defer c03Seed7(r)
	defer c03Seed5(r)
	defer c03Seed6(r)
	p := r.P
	r.Explanation = "Static decision of the structural conditions that keep private key material inside the key store: (1) SURFACE: no exported function, method, struct field or interface method outside the storage backends and key utilities returns or exposes a private-key type; (2) OWN: every conversion of a private-key typed value to an interface (the only way it can reach formatting, logging, JSON marshalling, JWK construction or header maps), every field selection on a private key and every private-key serialiser call lies in the owner table (backends, the signing/decrypting methods of the key store, the session-bound in-memory signer, the private-JWK detectors, the migration CLI, test helpers); (3) SignJWS reaches jws.Sign only if the jwk header is absent or cannot be converted to a crypto.Signer (all private key types implement it); (4) every backend assigned to the key store is wrapped by the key-name validator; each wrapper method with a key-name parameter reaches the backend only through validateKID; validateKID succeeds only via the pattern and the dot-segment refusal; the pattern admits no '/' or '\\'; backends never percent-decode key names; new keys get a UUID name; (5) key operations are audit-logged before they run."
	r.NotDecided = []string{"that Sign(kid) verifies with the published key (crypto semantics)", "contents of log lines / SQL rows at run time beyond the conversion inventory", "duplicate kid rebinding by Crypto.New's upsert (observed, unconfirmed relevance)"}

	c03Surface(r)
	c03Touch(r)
	c03NoFormatSink(r)
	c03AuditFixes(r)
	c03NoKeyCache(r)

	// (3)
	// the jwk-header guard (SignJWS and SignJWT) is decided in c03Audit4: since the audit repair it is isPublicJWK, a type switch
	// that rules out every non-public key type first (the earlier Raw(&crypto.Signer) probe missed X25519 and symmetric keys)
	c03Audit4(r)

	// (4)
	var stores []Site
	for _, s := range p.FieldStores("crypto", "Crypto", "backend") {
		if p.FileClass(p.FuncPos(s.Fn)) == "prod" {
			stores = append(stores, s)
		}
	}
	rule := "OWN: every backend assigned to Crypto.backend is the result of spi.NewValidatedKIDBackendWrapper(…, spi.KidPattern)"
	bad := false
	for _, s := range stores {
		st := s.Instr.(*ssa.Store)
		if !CallV(Fn("crypto/storage/spi", "", "NewValidatedKIDBackendWrapper"), -1).M(st.Val) {
			bad = true
			r.Bad("C03.backend-wrapped @ "+p.FuncName(Outer(s.Fn)), rule, p.Pos(s.Pos), "assigned value is "+AccessPath(st.Val, 0))
			continue
		}
		c := StripConv(st.Val).(*ssa.Call)
		if !strings.Contains(AccessPath(c.Call.Args[1], 0), "KidPattern") {
			bad = true
			r.Bad("C03.backend-wrapped @ "+p.FuncName(Outer(s.Fn)), rule, p.Pos(s.Pos), "wrapper pattern is "+AccessPath(c.Call.Args[1], 0))
		}
	}
	r.Sites += len(stores)
	if len(stores) < 4 {
		r.Lost("C03.backend-wrapped", rule, fmt.Sprintf("%d production assignments", len(stores)))
	} else if !bad {
		r.OK("C03.backend-wrapped", rule, "", fmt.Sprintf("%d assignments, all wrapped with KidPattern", len(stores)), true)
	}
	c03WrapperSiblings(r)
	vk := p.Func("crypto/storage/spi", "wrapper", "validateKID")
	r.Gate(Gate{ID: "C03.validate.pattern", Fn: vk, Effect: SuccessReturn(), Check: CallCheck(Fn("std:regexp", "Regexp", "MatchString"), -1, IsTrue)})
	r.Gate(Gate{ID: "C03.validate.no-dotdot", Fn: vk, Effect: SuccessReturn(), Check: CmpCheck("kid == \"..\" is false", token.EQL, ParamV("kid"), StrV(".."), false)})
	c03KidPattern(r)
	c03NoDecodingInBackends(r)
	c03NewKeyName(r)
	gormZeroValue(r, "C03.kid-lookup.no-struct-condition", "a lookup for kid \"\" would match some other key", 1, nil, "crypto")

	// (5)
	c03Audit(r, p.Func("crypto", "Crypto", "New"), AnyOf(Fn("gorm.io/gorm", "DB", "Create"), Fn("gorm.io/gorm", "DB", "Save")))
	c03Audit(r, p.Func("crypto", "Crypto", "Delete"), p.FnOrImpl("crypto/storage/spi", "Storage", "DeletePrivateKey"))
	c03Audit(r, p.Func("crypto", "Crypto", "DecryptJWE"), Fn(jwePkg, "", "Decrypt"))
	c03Audit(r, p.Func("crypto", "", "SignJWS"), Fn(jwsPkg, "", "Sign"))
	c03Audit(r, p.Func("crypto", "", "SignJWT"), Fn(jwtPkg, "", "Sign"))
}

var c03SurfaceOwners = []string{"crypto/storage/", "crypto/util", "crypto/test", "crypto/cmd", "test/", "crypto/storage/spi"}

func c03Surface(r *Report) {
	p := r.P
	rule := "SURFACE: no exported API element outside the storage backends / key utilities returns or exposes a private-key type"
	n := 0
	var bad []string
	for _, pk := range p.Pkgs {
		rel := strings.TrimPrefix(strings.TrimPrefix(pk.PkgPath, ModPath), "/")
		owner := false
		for _, o := range c03SurfaceOwners {
			if strings.HasPrefix(rel+"/", o) || rel == strings.TrimSuffix(o, "/") {
				owner = true
			}
		}
		if owner {
			continue
		}
		scope := pk.Types.Scope()
		for _, name := range scope.Names() {
			obj := scope.Lookup(name)
			if !obj.Exported() || p.FileClass(obj.Pos()) != "prod" {
				continue
			}
			check := func(what string, t types.Type) {
				n++
				if isPK(t) {
					bad = append(bad, fmt.Sprintf("%s.%s: %s has type %s", rel, name, what, t))
				}
			}
			switch o := obj.(type) {
			case *types.Func:
				res := o.Type().(*types.Signature).Results()
				for i := 0; i < res.Len(); i++ {
					check("result", res.At(i).Type())
				}
			case *types.Var:
				check("variable", o.Type())
			case *types.TypeName:
				if nt, ok := o.Type().(*types.Named); ok {
					for i := 0; i < nt.NumMethods(); i++ {
						m := nt.Method(i)
						if !m.Exported() || p.FileClass(m.Pos()) != "prod" {
							continue
						}
						res := m.Type().(*types.Signature).Results()
						for j := 0; j < res.Len(); j++ {
							check("method "+m.Name()+" result", res.At(j).Type())
						}
					}
					switch u := nt.Underlying().(type) {
					case *types.Struct:
						for i := 0; i < u.NumFields(); i++ {
							if u.Field(i).Exported() {
								check("field "+u.Field(i).Name(), u.Field(i).Type())
							}
						}
					case *types.Interface:
						for i := 0; i < u.NumMethods(); i++ {
							res := u.Method(i).Type().(*types.Signature).Results()
							for j := 0; j < res.Len(); j++ {
								check("interface method "+u.Method(i).Name()+" result", res.At(j).Type())
							}
						}
					}
				}
			}
		}
	}
	r.Sites += n
	sort.Strings(bad)
	reviewed := map[string]string{}
	var left []string
	for _, b := range bad {
		if _, ok := reviewed[b]; !ok {
			left = append(left, b)
		}
	}
	if n < 1000 {
		r.Lost("C03.surface", rule, fmt.Sprintf("only %d API elements inspected", n))
		return
	}
	if len(left) > 0 {
		r.Bad("C03.surface", rule, "", strings.Join(left, "; "))
		return
	}
	r.OK("C03.surface", rule, "", fmt.Sprintf("%d exported results/fields/variables inspected", n), true)
}

var c03TouchOwners = map[string]string{
	"crypto/storage/**":               "storage backends hold and (de)serialise the keys",
	"crypto/util.*":                   "PEM helpers used by the backends",
	"(*crypto.Crypto).getPrivateKey":  "fetches the signer from the backend for the operations below",
	"(*crypto.Crypto).Decrypt":        "decrypts with the backend's key",
	"(*crypto.Crypto).DecryptJWE":     "hands the key to jwe.Decrypt only",
	"(*crypto.Crypto).SignJWT":        "hands the signer to signJWT",
	"(*crypto.Crypto).SignJWS":        "hands the signer to SignJWS",
	"(*crypto.Crypto).SignDPoP":       "hands the signer to DPoP.Sign",
	"crypto.signJWT":                  "jwt.Sign with the signer as key option",
	"crypto.SignJWS":                  "jws.Sign with the signer as key option; refuses private JWK headers",
	"crypto.SignJWT":                  "jwt.Sign with the signer as key option",
	"crypto.EciesDecrypt":             "ECIES decryption primitive",
	"(*crypto/dpop.DPoP).Sign":        "signs the DPoP proof with the given signer",
	"(crypto.MemoryJWTSigner).*":      "session-bound user wallet key: lives in the session store only, never SQL/log/API",
	"(*crypto.MemoryJWTSigner).*":     "session-bound user wallet key",
	"crypto/dpop.jwkIsPrivateKey":     "detector of private JWKs (refuses them)",
	"vdr/didjwk.rawPrivateKeyOf":      "detector of private JWKs (refuses them)",
	"crypto/cmd.*":                    "fs2vault / fs2external migration CLI run by the operator",
	"http/user.*":                     "creates the session-bound user wallet key pair",
	"(http/user.SessionMiddleware).*": "creates the session-bound user wallet key pair",
	"http/user.createUserSession":     "creates the session-bound user wallet key pair",
	"crypto.GenerateJWK":              "creates the in-memory key pair of a session-bound user wallet (not a key-store key)",
	"crypto.SignatureAlgorithm":       "type switch on the key to choose the JWA algorithm; selects only PublicKey",
	"crypto.NewMemoryCryptoInstance":  "test helper",
	"crypto.NewTestKey":               "test helper",
	"crypto/test.*":                   "test helpers",
	"test/**":                         "test helpers",
	"pki.*":                           "TLS certificate loading from operator-configured files (not key-store keys)",
	"core.*":                          "TLS certificate loading from operator-configured files (not key-store keys)",
	"(core.TLSConfig).*":              "TLS certificate loading from operator-configured files (not key-store keys)",
	"network/transport/grpc.*":        "TLS certificate of the node (operator-configured file, not a key-store key)",
	"e2e-tests/**":                    "end-to-end test tooling",
}

// c03Touch: sites where a PK-typed value is converted to an interface, has a field selected, or is serialised.
func c03Touch(r *Report) {
	p := r.P
	var sites []Site
	p.EachInstr(func(fn *ssa.Function, in ssa.Instruction) {
		switch x := in.(type) {
		case *ssa.MakeInterface:
			if isPK(x.X.Type()) && !isPK(x.Type()) {
				sites = append(sites, Site{Fn: fn, Instr: in, Pos: in.Pos(), Note: "private key converted to " + x.Type().String()})
			}
		case *ssa.ChangeInterface:
			if isPK(x.X.Type()) && !isPK(x.Type()) {
				sites = append(sites, Site{Fn: fn, Instr: in, Pos: in.Pos(), Note: "private key interface converted to " + x.Type().String()})
			}
		case *ssa.FieldAddr:
			t := x.X.Type()
			if isPK(t) {
				sites = append(sites, Site{Fn: fn, Instr: in, Pos: in.Pos(), Note: "field of a private key selected"})
			}
		case *ssa.Field:
			if isPK(x.X.Type()) {
				sites = append(sites, Site{Fn: fn, Instr: in, Pos: in.Pos(), Note: "field of a private key selected"})
			}
		case ssa.CallInstruction:
			if f := x.Common().StaticCallee(); f != nil {
				full := f.String()
				if strings.HasPrefix(full, "crypto/x509.Marshal") && strings.Contains(full, "PrivateKey") || strings.HasSuffix(full, "util.PrivateKeyToPem") {
					sites = append(sites, Site{Fn: fn, Instr: in, Pos: in.Pos(), Note: "private key serialiser " + full})
				}
			}
		}
	})
	r.Own(OwnSpec{ID: "C03.touch", Op: "convert a private key to a general interface / select its fields / serialise it", Sites: sites, Owners: c03TouchOwners, Min: 10, Classes: []string{"prod", "generated"}})
}

func c03RawTargetIsSigner(r *Report, sj *ssa.Function) {
	rule := "ARG: the private-JWK test in SignJWS converts the header key to crypto.Signer (implemented by every private key type), not to an enumerated subset"
	key := "C03.jwkheader.detector-is-crypto.Signer"
	if sj == nil {
		r.Lost(key, rule, "SignJWS not found")
		return
	}
	calls := r.P.CallsNear(sj, Fn(jwkPkg, "Key", "Raw"))
	r.Sites += len(calls)
	if len(calls) != 1 {
		r.Bad(key, rule, r.P.Pos(sj.Pos()), fmt.Sprintf("%d jwk.Key.Raw calls", len(calls)))
		return
	}
	a := StripConv(CallArg(calls[0].Common(), 0))
	t := a.Type().String()
	if t != "*crypto.Signer" {
		r.Bad(key, rule, r.P.Pos(calls[0].Pos()), "Raw target has type "+t)
		return
	}
	r.OK(key, rule, r.P.Pos(calls[0].Pos()), "Raw(&crypto.Signer)", true)
}

// c03WrapperSiblings: every method of spi.wrapper with a string key-name parameter reaches the wrapped backend only via validateKID.
func c03WrapperSiblings(r *Report) {
	p := r.P
	pk := p.Pkg("crypto/storage/spi")
	if pk == nil {
		r.Lost("C03.wrapper", "SIBLING", "package not found")
		return
	}
	tn, _ := pk.Types.Scope().Lookup("wrapper").(*types.TypeName)
	if tn == nil {
		r.Lost("C03.wrapper", "SIBLING", "type wrapper not found")
		return
	}
	named := tn.Type().(*types.Named)
	n := 0
	for i := 0; i < named.NumMethods(); i++ {
		m := named.Method(i)
		sig := m.Type().(*types.Signature)
		hasName := false
		for j := 0; j < sig.Params().Len(); j++ {
			if b, ok := sig.Params().At(j).Type().(*types.Basic); ok && b.Kind() == types.String {
				pn := strings.ToLower(sig.Params().At(j).Name())
				if strings.Contains(pn, "kid") || strings.Contains(pn, "keyname") {
					hasName = true
				}
			}
		}
		if !hasName || m.Name() == "validateKID" {
			continue
		}
		fn := p.SSA.FuncValue(m)
		n++
		// (NewPrivateKey used to be a listed exception — "its only production caller passes a UUID" — until an audit showed the
		// hole in the mechanism itself: names like ../x written through the wrapped fs backend; the wrapper now validates it too)
		r.Gate(Gate{ID: "C03.wrapper.validates", Fn: fn, Effect: CallEffect(Callee{Desc: "wrappedBackend." + m.Name(), M: func(cc *ssa.CallCommon) bool {
			return cc.IsInvoke() && cc.Method != nil && cc.Method.Name() == m.Name()
		}}), Check: ErrCheck(Fn("crypto/storage/spi", "wrapper", "validateKID"))})
	}
	r.Sites += n
	if n < 5 {
		r.Lost("C03.wrapper", "SIBLING", fmt.Sprintf("%d wrapper methods with a key name", n))
	}
}

func c03KidPattern(r *Report) {
	p := r.P
	rule := "TABLE: spi.KidPattern is a constant regular expression that admits no path separator"
	key := "C03.kid-pattern"
	pk := p.Pkg("crypto/storage/spi")
	src := ""
	for _, f := range pk.Syntax {
		for _, d := range f.Decls {
			_ = d
		}
	}
	// find the constant argument of regexp.MustCompile in the package initialiser
	init := p.SSAPkgs[ModPath+"/crypto/storage/spi"].Func("init")
	for _, b := range init.Blocks {
		for _, in := range b.Instrs {
			if c, ok := in.(*ssa.Call); ok {
				if f := c.Common().StaticCallee(); f != nil && f.String() == "regexp.MustCompile" {
					if s, ok := ConstString(c.Call.Args[0]); ok {
						// is the result stored into KidPattern?
						for _, ref := range *c.Referrers() {
							if st, ok := ref.(*ssa.Store); ok {
								if g, ok := st.Addr.(*ssa.Global); ok && g.Name() == "KidPattern" {
									src = s
								}
							}
						}
					}
				}
			}
		}
	}
	r.Sites++
	if src == "" {
		r.Lost(key, rule, "KidPattern is not initialised with regexp.MustCompile(<constant>)")
		return
	}
	re, err := regexp.Compile(src)
	if err != nil {
		r.Bad(key, rule, "", "pattern does not compile: "+err.Error())
		return
	}
	for _, s := range []string{"/", "\\", "a/b", "a\\b", "../x", "", "a\nb", "a\x00b"} {
		if re.MatchString(s) {
			r.Bad(key, rule, "", fmt.Sprintf("pattern %q accepts %q", src, s))
			return
		}
	}
	if !strings.HasPrefix(src, "^") || !strings.HasSuffix(src, "$") {
		r.Bad(key, rule, "", "pattern is not anchored: "+src)
		return
	}
	r.OK(key, rule, "", "constant pattern "+src+" rejects separators, control characters and the empty name (evaluated on the constant, not on program input)", true)
}

func c03NoDecodingInBackends(r *Report) {
	p := r.P
	dec := AnyOf(Fn("std:net/url", "", "PathUnescape"), Fn("std:net/url", "", "QueryUnescape"))
	all := p.CallSites(dec, true)
	var sites []Site
	for _, s := range all {
		if strings.HasPrefix(funcPkg(s.Fn), ModPath+"/crypto/") {
			sites = append(sites, s)
		}
	}
	r.Own(OwnSpec{ID: "C03.backends-do-not-decode-names", Op: "percent-decode inside the key store / backends (a validated name could turn into a path)", Sites: sites, Owners: map[string]string{}, Min: 0})
	// hand-made decoding/rewriting: the storage backends use key names as they are (escaping and path joining only)
	var rewriters []Callee
	for _, n := range []string{"Replace", "ReplaceAll", "NewReplacer", "Map", "Trim", "TrimLeft", "TrimRight", "TrimPrefix", "TrimSuffix", "TrimSpace", "TrimFunc", "ToLower", "ToUpper", "Split", "SplitN", "SplitAfter", "Fields", "Cut", "CutPrefix", "CutSuffix"} {
		rewriters = append(rewriters, Fn("std:strings", "", n))
	}
	rewriters = append(rewriters, Fn("std:strings", "Replacer", "Replace"), Fn("std:encoding/hex", "", "DecodeString"), Fn("std:encoding/base64", "Encoding", "DecodeString"),
		Fn("std:regexp", "Regexp", "ReplaceAllString"), Fn("std:regexp", "Regexp", "ReplaceAllStringFunc"), Fn("std:net/url", "", "Parse"), Fn("std:path", "", "Clean"))
	var rw []Site
	for _, s := range p.CallSites(AnyOf(rewriters...), true) {
		if strings.HasPrefix(funcPkg(s.Fn), ModPath+"/crypto/storage/") && p.FileClass(p.FuncPos(s.Fn)) == "prod" {
			rw = append(rw, s)
		}
	}
	r.Own(OwnSpec{ID: "C03.backends-do-not-rewrite-names", Op: "rewrite/split/trim/decode a string inside a key storage backend (key names are used verbatim: escaped or joined, never rewritten)", Sites: rw, Owners: map[string]string{}, Min: 0})
	// positive control: the matcher finds the decoder where the module legitimately uses it
	rule := "SELF-TEST: the percent-decoding matcher finds url.PathUnescape elsewhere in the module"
	r.Sites += len(all)
	if len(all) == 0 {
		r.Undecided("C03.backends-do-not-decode-names.control", rule, "", "no url.PathUnescape call found anywhere: the zero-count rule would pass vacuously")
	} else {
		r.OK("C03.backends-do-not-decode-names.control", rule, p.Pos(all[0].Pos), fmt.Sprintf("%d site(s) in the module, none in crypto/", len(all)), false)
	}
}

func c03NewKeyName(r *Report) {
	p := r.P
	rule := "ARG: new private keys are stored under a name generated by the key store itself (uuid.New().String())"
	key := "C03.new-key-name"
	sites := p.CallSites(p.FnOrImpl("crypto/storage/spi", "Storage", "NewPrivateKey"), false)
	n := 0
	for _, s := range sites {
		cls := p.FileClass(p.FuncPos(s.Fn))
		if cls != "prod" || strings.HasPrefix(funcPkg(s.Fn), ModPath+"/crypto/storage") {
			continue
		}
		n++
		a := AccessPath(CallArg(s.Instr.(ssa.CallInstruction).Common(), 1), 0)
		if !strings.Contains(a, "String(New())") && !strings.Contains(a, "uuid") && !strings.Contains(a, "NewString") {
			r.Bad(key, rule, p.Pos(s.Pos), "key name is "+a)
			return
		}
	}
	r.Sites += n
	if n == 0 {
		r.Lost(key, rule, "no production caller of Storage.NewPrivateKey")
		return
	}
	r.OK(key, rule, "", fmt.Sprintf("%d caller(s), UUID names", n), true)
}

func c03Audit(r *Report, fn *ssa.Function, op Callee) {
	rule := "ORDER: every call of the key operation is dominated by an audit.Log call in the same function"
	if fn == nil {
		r.Lost("C03.audit", rule, "function not found")
		return
	}
	key := "C03.audit @ " + r.P.FuncName(fn)
	n := 0
	for _, f := range WithAnons(fn) {
		logs := Calls(f, Fn("audit", "", "Log"))
		for _, o := range Calls(f, op) {
			n++
			ok := false
			for _, l := range logs {
				if InstrDominates(l, o) {
					ok = true
				}
			}
			if !ok {
				r.Bad(key, rule, r.P.Pos(o.Pos()), op.Desc+" is not dominated by audit.Log")
				return
			}
		}
	}
	r.Sites += n
	if n == 0 {
		r.Lost(key, rule, "operation "+op.Desc+" not found in "+r.P.FuncName(fn))
		return
	}
	r.OK(key, rule, r.P.Pos(fn.Pos()), fmt.Sprintf("%d %s call(s), each dominated by audit.Log", n, op.Desc), true)
}

// formatSinkPkgs: packages whose functions render their arguments as text (or JSON) for humans, logs, errors or API responses.
var formatSinkPkgs = map[string]bool{"fmt": true, "log": true, "log/slog": true, "errors": true, "github.com/sirupsen/logrus": true,
	"encoding/json": true, "text/template": true, "html/template": true, "github.com/labstack/echo/v4": true}

// pkFormatSinks: sites where a private-key-typed value is converted to an interface that is then handed — directly or
// as an element of a variadic argument list — to a function of a formatting/logging package.
func pkFormatSinks(p *Prog) []Site {
	var out []Site
	sinkOf := func(ci ssa.CallInstruction) string {
		cc := ci.Common()
		var pkg *types.Package
		var name string
		if f := cc.StaticCallee(); f != nil && f.Pkg != nil {
			pkg, name = f.Pkg.Pkg, f.Name()
		} else if cc.IsInvoke() && cc.Method.Pkg() != nil {
			pkg, name = cc.Method.Pkg(), cc.Method.Name()
		}
		if pkg != nil && formatSinkPkgs[pkg.Path()] {
			return pkg.Path() + "." + name
		}
		return ""
	}
	p.EachInstr(func(fn *ssa.Function, in ssa.Instruction) {
		var conv ssa.Value
		switch x := in.(type) {
		case *ssa.MakeInterface:
			if isPK(x.X.Type()) {
				conv = x
			}
		case *ssa.ChangeInterface:
			if isPK(x.X.Type()) && !isPK(x.Type()) {
				conv = x
			}
		}
		if conv == nil {
			return
		}
		for _, ref := range *conv.Referrers() {
			switch u := ref.(type) {
			case ssa.CallInstruction:
				if s := sinkOf(u); s != "" {
					out = append(out, Site{Fn: fn, Instr: u, Pos: u.Pos(), Note: "private key passed to " + s})
				}
			case *ssa.Store:
				// element of a variadic argument list: store into arr[i], arr sliced, slice passed to the call
				ia, ok := u.Addr.(*ssa.IndexAddr)
				if !ok || u.Val != conv {
					continue
				}
				for _, r2 := range *ia.X.Referrers() {
					sl, ok := r2.(*ssa.Slice)
					if !ok {
						continue
					}
					for _, r3 := range *sl.Referrers() {
						if ci, ok := r3.(ssa.CallInstruction); ok {
							if s := sinkOf(ci); s != "" {
								out = append(out, Site{Fn: fn, Instr: ci, Pos: ci.Pos(), Note: "private key passed (variadic) to " + s})
							}
						}
					}
				}
			}
		}
	})
	return out
}

// c03NoFormatSink: module-wide zero-count rule + fixture control.
func c03NoFormatSink(r *Report) {
	p := r.P
	rule := "OWN: no private-key value is handed to a formatting, logging, error-text or JSON-rendering function (fmt, log, logrus, errors, encoding/json, echo) outside the storage backends"
	key := "C03.no-format-sink"
	fp, err := LoadFixture("c03_format")
	if err != nil {
		r.Undecided(key+".control", rule, "", "fixture failed to load: "+err.Error())
		return
	}
	got := map[string]int{}
	for _, s := range pkFormatSinks(fp) {
		got[s.Fn.Name()]++
	}
	if got["leakVariadic"] != 1 || got["leakDirect"] != 1 || got["fine"] != 0 {
		r.Undecided(key+".control", rule, "", fmt.Sprintf("positive control failed: %v (want leakVariadic=1 leakDirect=1 fine=0)", got))
		return
	}
	r.OK(key+".control", rule, "", "the matcher reports both leaking fixture functions and not the one that formats only the public key", false)
	n := 0
	for _, s := range pkFormatSinks(p) {
		if c := p.FileClass(p.FuncPos(s.Fn)); c != "prod" && c != "generated" {
			continue
		}
		name := p.FuncName(s.Fn)
		if strings.HasPrefix(name, "crypto/storage/") || strings.HasPrefix(name, "(crypto/storage/") || strings.HasPrefix(name, "(*crypto/storage/") {
			// the backends serialise keys for the store they own (JSON body of the external store API, vault payload)
			n++
			continue
		}
		r.Bad(key+" @ "+name, rule, p.Pos(s.Pos), s.Note+": the key material would appear in an error message, log line or response")
		return
	}
	r.Sites += n + 3
	r.OK(key, rule, "", fmt.Sprintf("0 sites outside the storage backends (%d inside)", n), true)
}

// pkRetained: sites where a private-key-typed value is stored into a struct field, a map, a slice element or a
// Store/LoadOrStore/Swap/Set/Put/Add-style container method (e.g. sync.Map, a cache).
func pkRetained(p *Prog) []Site {
	var out []Site
	p.EachInstr(func(fn *ssa.Function, in ssa.Instruction) {
		switch x := in.(type) {
		case *ssa.Store:
			if !isPK(x.Val.Type()) {
				return
			}
			switch a := x.Addr.(type) {
			case *ssa.FieldAddr:
				// a field of a local struct literal that does not escape is not retention; a field of *receiver/param/heap is
				if al, ok := a.X.(*ssa.Alloc); ok && !al.Heap {
					return
				}
				out = append(out, Site{Fn: fn, Instr: in, Pos: in.Pos(), Note: "private key stored in a struct field"})
			case *ssa.IndexAddr:
				if al, ok := a.X.(*ssa.Alloc); ok && !al.Heap {
					return
				}
				out = append(out, Site{Fn: fn, Instr: in, Pos: in.Pos(), Note: "private key stored in a slice/array element"})
			case *ssa.Global:
				out = append(out, Site{Fn: fn, Instr: in, Pos: in.Pos(), Note: "private key stored in a package variable"})
			}
		case *ssa.MapUpdate:
			if isPK(x.Value.Type()) {
				out = append(out, Site{Fn: fn, Instr: in, Pos: in.Pos(), Note: "private key stored in a map"})
			}
		case ssa.CallInstruction:
			cc := x.Common()
			name := ""
			if cc.IsInvoke() {
				name = cc.Method.Name()
			} else if f := cc.StaticCallee(); f != nil && f.Signature.Recv() != nil {
				name = f.Name()
			}
			switch name {
			case "Store", "LoadOrStore", "Swap", "CompareAndSwap", "Set", "Put", "Add", "SetWithTTL":
			default:
				return
			}
			for _, a := range cc.Args {
				v := a
				if mi, ok := v.(*ssa.MakeInterface); ok {
					v = mi.X
				} else if ci, ok := v.(*ssa.ChangeInterface); ok {
					v = ci.X
				}
				if isPK(v.Type()) {
					out = append(out, Site{Fn: fn, Instr: x, Pos: x.Pos(), Note: "private key handed to container method " + name})
				}
			}
		}
	})
	return out
}

// c03NoKeyCache: outside the storage backends and the session-bound in-memory signer, a private key obtained for an
// operation is not retained (a retained handle outlives Link/Delete/rollback of the kid it was fetched for).
func c03NoKeyCache(r *Report) {
	p := r.P
	rule := "OWN: a private-key value is not retained (struct field, map, slice element, package variable, Store/Set/Put-style container) outside the storage backends and the session-bound in-memory signer"
	key := "C03.no-key-retention"
	fp, err := LoadFixture("c03_format")
	if err != nil {
		r.Undecided(key+".control", rule, "", "fixture failed to load: "+err.Error())
		return
	}
	got := map[string]int{}
	for _, s := range pkRetained(fp) {
		got[s.Fn.Name()]++
	}
	if got["cacheInMap"] != 1 || got["cacheInField"] != 1 || got["cacheInSyncMap"] != 1 || got["useOnly"] != 0 {
		r.Undecided(key+".control", rule, "", fmt.Sprintf("positive control failed: %v", got))
		return
	}
	r.OK(key+".control", rule, "", "the matcher reports the three retaining fixture methods and not the one that only uses the key", false)
	owners := map[string]string{
		"crypto/storage/**":               "the backends are the key store",
		"(crypto.MemoryJWTSigner).*":      "session-bound user wallet key, lives in the session only",
		"(*crypto.MemoryJWTSigner).*":     "session-bound user wallet key",
		"crypto.NewMemoryCryptoInstance":  "test helper",
		"crypto/test.*":                   "test helpers",
		"crypto/cmd.*":                    "migration CLI run by the operator",
		"http/user.*":                     "creates the session-bound user wallet key pair",
		"(http/user.SessionMiddleware).*": "creates the session-bound user wallet key pair",
		"pki.*":                           "TLS certificate of the node (operator-configured file, not a key-store key)",
		"core.*":                          "TLS certificate loading from operator-configured files",
		"(core.TLSConfig).*":              "TLS certificate loading from operator-configured files",
		"network/transport/grpc.*":        "TLS certificate of the node",
		"test/**":                         "test helpers",
		"e2e-tests/**":                    "end-to-end test tooling",
	}
	r.Own(OwnSpec{ID: key, Op: "retain a private key beyond the operation", Sites: pkRetained(p), Owners: owners, Min: 0, Classes: []string{"prod", "generated"}})
}

// c03AuditFixes: rules for defects found by the audit round (each fails on the pre-fix tree).
func c03AuditFixes(r *Report) {
	p := r.P
	const az = "crypto/storage/azure"
	// the Azure signer signs with the version of the key whose public key it reports (an empty version means "latest" in Key
	// Vault, which is another key pair after a rotation)
	sign := p.Func(az, "azureSigningKey", "Sign")
	r.ArgIs("C03.azure.sign-with-the-fetched-key-version", sign, p.FnOrImpl(az, "keyVaultClient", "Sign"), 2, FieldV("azureSigningKey", "keyVersion"), 1)
	r.FieldStoredIs("C03.azure.key-version-is-the-fetched-one", p.Func(az, "Keyvault", "GetPrivateKey"), "azureSigningKey", "keyVersion", CallV(Fn(az, "", "parseKey"), 2), 1)
	// a did:nuts verification method publishes a PUBLIC key: the thumbprint covers the public members only, so a complete
	// private JWK in publicKeyJwk validated and was published to the network
	vt := p.Func("vdr/didnuts", "verificationMethodValidator", "verifyThumbprint")
	pubOK := func(typ string) Check {
		return Check{Desc: "jwk.(" + typ + ") ok", Pass: IsTrue, Values: func(fn *ssa.Function) []ssa.Value {
			var out []ssa.Value
			for _, b := range fn.Blocks {
				for _, in := range b.Instrs {
					if ta, isTA := in.(*ssa.TypeAssert); isTA && ta.CommaOk && strings.HasSuffix(ta.AssertedType.String(), "jwk."+typ) {
						for _, ref := range *ta.Referrers() {
							if ex, isEx := ref.(*ssa.Extract); isEx && ex.Index == 1 {
								out = append(out, ex)
							}
						}
					}
				}
			}
			return out
		}}
	}
	r.Gate(Gate{ID: "C03.diddoc.published-key-is-public", Fn: vt, Effect: SuccessReturn(), Check: pubOK("ECDSAPublicKey"), Alt: []Check{pubOK("RSAPublicKey"), pubOK("OKPPublicKey")}})
}
