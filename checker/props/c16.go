package props

import (
	"fmt"
	"go/token"
	"go/types"
	"strings"

	"golang.org/x/tools/go/ssa"

	. "verifcheck/an"
)

func init() { Registry["C16"] = c16 }

func c16(r *Report) {
	defer c16Seed8(r)
	p := r.P
	const d = "discovery"
	vcPkg := goDid + "/vc"
	r.Explanation = "Static decision of the structural conditions for discovery lists: (1) the server stores a registration only through verifyRegistration (err nil) and the not-already-present test; verifyRegistration succeeds only via JWT format, an id, audience, non-zero expiration, maximum validity, allowed DID method, the registration/retraction validator and VerifyVP(verifyVCs=true, validAt=nil); the registration validator requires the VP not to outlive its credentials, a definition match and that all (and only) presented credentials matched; a retraction must carry no credentials, a non-empty string retract_jti, and reference an existing entry of the presentation's signer; (2) store ordering: the timestamp increment, the removal of the subject's previous entry and the insert share one SQL transaction (increment first); a poll reads the service row (timestamp) before the presentation rows; a seed change wipes the service's entries and resets the timestamp to 0 with a full-row Save; (3) the client marks an entry validated only after its own verifier passed, checks the seed before adding, and search returns only validated (unless explicitly allowed), unexpired entries."
	r.NotDecided = []string{"replica convergence over interleavings of registrations and polls (history property)", "PEX matching semantics (C12)", "credential verification (C01)"}
	gormZeroValue(r, "C16.sql.no-struct-condition", "timestamp 0 / empty service id would drop the condition or the update", 1, map[string]string{
		"(*discovery.sqlStore).exists":             "reviewed: all three values are non-empty at the three callers (service id of a loaded definition, signer/subject DID string, presentation id / retract_jti checked non-empty before)",
		"(*discovery.sqlStore).findAndLockService": "reviewed: the service id is the id of a definition loaded at start-up; the row is only locked, a missing condition cannot widen a write",
	}, "discovery")

	// (1) server
	reg := p.Func(d, "Module", "Register")
	add := CallEffect(Fn(d, "sqlStore", "add"))
	r.Gate(Gate{ID: "C16.register.verified", Fn: reg, Effect: add, Check: ErrCheck(Fn(d, "Module", "verifyRegistration"))})
	r.Gate(Gate{ID: "C16.register.not-duplicate", Fn: reg, Effect: add, Check: CallCheck(Fn(d, "sqlStore", "exists"), 0, IsFalse)})
	r.Gate(Gate{ID: "C16.register.exists-lookup-ok", Fn: reg, Effect: add, Check: ErrCheck(Fn(d, "sqlStore", "exists"))})
	r.Own(OwnSpec{ID: "C16.own.store-add", Op: "call sqlStore.add", Sites: p.CallSites(Fn(d, "sqlStore", "add"), true), Min: 2, Owners: map[string]string{
		"(*discovery.Module).Register":             "server side, after verification",
		"(*discovery.clientUpdater).updateService": "client replica: stored unvalidated, validated flag set only after own verification",
	}})
	vr := p.Func(d, "Module", "verifyRegistration")
	ok := SuccessReturn()
	r.Gate(Gate{ID: "C16.verify.jwt-format", Fn: vr, Effect: ok, Check: CmpCheck("Format() == jwt_vp", token.EQL, CallV(Fn(vcPkg, "VerifiablePresentation", "Format"), -1), StrV("jwt_vp"), true)})
	r.Gate(Gate{ID: "C16.verify.has-id", Fn: vr, Effect: ok, Check: CmpCheck("presentation.ID == nil is false", token.EQL, FieldV("VerifiablePresentation", "ID"), NilV(), false)})
	// the audience test is either the helper validateAudience(definition, token audience) or — when it has been inlined —
	// slices.Contains(token audience, definition.ID)
	audInline := CallCheck(Fn("std:slices", "", "Contains"), -1, IsTrue)
	audInline.Desc = "slices.Contains(JWT().Audience(), definition.ID)"
	audInline.Filter = func(ci ssa.CallInstruction) bool {
		return CallV(Fn(jwtPkg, "Token", "Audience"), -1).M(CallArg(ci.Common(), 0)) && FieldV("ServiceDefinition", "ID").M(CallArg(ci.Common(), 1))
	}
	if p.Func(d, "", "validateAudience") != nil {
		r.Gate(Gate{ID: "C16.verify.audience", Fn: vr, Effect: ok, Check: ErrCheck(Fn(d, "", "validateAudience")), Alt: []Check{audInline}})
	} else {
		r.Gate(Gate{ID: "C16.verify.audience", Fn: vr, Effect: ok, Check: audInline})
	}
	r.Gate(Gate{ID: "C16.verify.expiration-set", Fn: vr, Effect: ok, Check: CallCheck(Fn("std:time", "Time", "IsZero"), -1, IsFalse)})
	r.Gate(Gate{ID: "C16.verify.max-validity", Fn: vr, Effect: ok, Check: CmpCheck("time.Until(exp) <= PresentationMaxValidity seconds", token.LEQ, CallV(Fn("std:time", "", "Until"), -1), MulConstV(FieldV("ServiceDefinition", "PresentationMaxValidity"), 1000000000), true)})
	r.ArgIs("C16.verify.max-validity.of-vp-expiration", vr, Fn("std:time", "", "Until"), 0, CallV(Fn(jwtPkg, "Token", "Expiration"), -1), 1)
	if va := p.Func(d, "", "validateAudience"); va != nil || vr == nil {
		r.Gate(Gate{ID: "C16.verify.audience.is-service-id", Fn: va, Effect: ok, Check: CmpCheck("audienceID == service.ID", token.EQL, AnyV(), FieldV("ServiceDefinition", "ID"), true)})
		r.ArgIs("C16.verify.audience.of-this-service", vr, Fn(d, "", "validateAudience"), 0, ParamV("definition"), 1)
		r.ArgIs("C16.verify.audience.of-the-token", vr, Fn(d, "", "validateAudience"), 1, CallV(Fn(jwtPkg, "Token", "Audience"), -1), 1)
	} else {
		// inlined: the argument constraints are part of the gate's call filter above; the service is the one being verified
		n := 0
		for _, ci := range Calls(vr, Fn("std:slices", "", "Contains")) {
			if audInline.Filter(ci) {
				n++
				if fb := FieldBase(CallArg(ci.Common(), 1)); fb == nil || !IsParamOrItsCell(fb, "definition") {
					r.Bad("C16.verify.audience.of-this-service @ "+p.FuncName(vr), "ARG: the service whose id must be in the audience is the `definition` parameter", p.Pos(ci.Pos()), "the id compared is "+AccessPath(CallArg(ci.Common(), 1), 0))
				}
			}
		}
		if n == 0 {
			r.Lost("C16.verify.audience.inlined", "ARG: audience test on the token's audience and the service id", "neither validateAudience nor an inlined slices.Contains(JWT().Audience(), definition.ID) found")
		} else {
			r.OK("C16.verify.audience.inlined @ "+p.FuncName(vr), "ARG: the inlined audience test is slices.Contains(token audience, definition.ID)", p.Pos(vr.Pos()), fmt.Sprintf("%d site(s)", n), true)
		}
	}
	r.Gate(Gate{ID: "C16.verify.signer", Fn: vr, Effect: ok, Check: ErrCheck(Fn("vcr/credential", "", "PresentationSigner"))})
	didMethod := CallCheck(Fn("std:slices", "", "Contains"), -1, IsTrue)
	didMethod.Desc = "slices.Contains(definition.DIDMethods, signer.Method)"
	didMethod.Filter = func(ci ssa.CallInstruction) bool {
		return FieldV("ServiceDefinition", "DIDMethods").M(CallArg(ci.Common(), 0))
	}
	r.Gate(Gate{ID: "C16.verify.did-method", Fn: vr, Effect: ok, Check: didMethod,
		Alt: []Check{CmpCheck("len(DIDMethods) > 0 is false", token.LEQ, LenV(FieldV("ServiceDefinition", "DIDMethods")), IntV(0), true)}})
	r.Gate(Gate{ID: "C16.verify.content-validator", Fn: vr, Effect: ok, Check: ErrCheck(Fn(d, "Module", "validateRegistration")), Alt: []Check{ErrCheck(Fn(d, "Module", "validateRetraction"))}})
	r.Gate(Gate{ID: "C16.verify.retraction-only-for-retraction-type", Fn: vr, Effect: CallEffect(Fn(d, "Module", "validateRetraction")), Check: CallCheck(Fn(vcPkg, "VerifiablePresentation", "IsType"), -1, IsTrue)})
	vp := ErrCheck(Fn("vcr/verifier", "Verifier", "VerifyVP"))
	vp.ArgOK = func(ci ssa.CallInstruction) string {
		if b, isB := ConstBool(CallArg(ci.Common(), 1)); !isB || !b {
			return "VerifyVP is not called with verifyVCs = true"
		}
		if !IsNilConst(CallArg(ci.Common(), 3)) {
			return "VerifyVP is not called with validAt = nil"
		}
		return ""
	}
	r.Gate(Gate{ID: "C16.verify.signatures", Fn: vr, Effect: ok, Check: vp})
	c16MethodOfSigner(r, vr)
	c16ServiceRowWriters(r)
	// registration content
	vg := p.Func(d, "Module", "validateRegistration")
	r.Gate(Gate{ID: "C16.registration.not-outliving-credentials", Fn: vg, Effect: ok, ForEach: true, Check: TimeOrder("credential expiration is before presentation expiration is false", FieldV("VerifiableCredential", "ExpirationDate"), CallV(Fn(jwtPkg, "Token", "Expiration"), -1), IsFalse),
		Skip: []Check{CmpCheck("cred.ExpirationDate == nil", token.EQL, FieldV("VerifiableCredential", "ExpirationDate"), NilV(), true)}})
	r.Gate(Gate{ID: "C16.registration.definition-match", Fn: vg, Effect: ok, Check: ErrCheck(Fn("vcr/pe", "PresentationDefinition", "Match"))})
	// all and only: every presented credential must be one of the credentials the definition matched (fix: comparing the
	// two counts left room for an arbitrary extra credential when one credential matched two descriptors). The membership
	// set is filled from Match()'s result, and each presented credential passes the membership test.
	r.Gate(Gate{ID: "C16.registration.all-and-only", Fn: vg, Effect: ok, ForEach: true, Check: Check{Desc: "matched[presented credential] is true", Pass: IsTrue,
		Values: func(fn *ssa.Function) []ssa.Value {
			var out []ssa.Value
			for _, b := range fn.Blocks {
				for _, in := range b.Instrs {
					if lk, isLk := in.(*ssa.Lookup); isLk && !lk.CommaOk {
						if m, isMap := lk.X.Type().Underlying().(*types.Map); isMap && types.Identical(m.Elem().Underlying(), types.Typ[types.Bool]) {
							out = append(out, lk)
						}
					}
				}
			}
			return out
		}}})
	c16MatchedSetFromMatch(r, vg)
	c17ArgFrom(r, "C16.registration.match-on-presented", vg, Fn("vcr/pe", "PresentationDefinition", "Match"), 0, FieldV("VerifiablePresentation", "VerifiableCredential"), "the definition is matched against exactly the presented credentials")
	// retraction content
	rt := p.Func(d, "Module", "validateRetraction")
	r.Gate(Gate{ID: "C16.retraction.no-credentials", Fn: rt, Effect: ok, Check: CmpCheck("len(VerifiableCredential) > 0 is false", token.LEQ, LenV(FieldV("VerifiablePresentation", "VerifiableCredential")), IntV(0), true)})
	r.Gate(Gate{ID: "C16.retraction.jti-string", Fn: rt, Effect: ok, Check: AssertOK("string")})
	r.Gate(Gate{ID: "C16.retraction.jti-nonempty", Fn: rt, Effect: ok, Check: CmpCheck("retractJTI == \"\" is false", token.EQL, AnyV(), StrV(""), false)})
	r.Gate(Gate{ID: "C16.retraction.references-existing", Fn: rt, Effect: ok, Check: CallCheck(Fn(d, "sqlStore", "exists"), 0, IsTrue)})
	c17ArgFrom(r, "C16.retraction.entry-of-signer", rt, Fn(d, "sqlStore", "exists"), 1, PathV("String(", "PresentationSigner("), "the referenced entry is looked up under the presentation's signer (not a self-asserted claim)")

	// (2) store ordering
	c16AddTx(r)
	c16GetOrder(r)
	c16Wipe(r)

	// (3) client
	us := p.Func(d, "clientUpdater", "updateService")
	c16Audit3(r, us)
	c16Seed5(r, us)
	c16Seed6(r)
	c16ClientProgress(r, us)
	r.Gate(Gate{ID: "C16.client.validated-only-after-own-verification", Fn: us, Effect: CallEffect(Fn(d, "sqlStore", "updateValidated")), Check: ErrCheck(DynField("verifier"))})
	r.Gate(Gate{ID: "C16.client.seed-checked-before-add", Fn: us, Effect: CallEffect(Fn(d, "sqlStore", "add")), Check: ErrCheck(Fn(d, "sqlStore", "wipeOnSeedChange"))})
	r.Gate(Gate{ID: "C16.client.fetched", Fn: us, Effect: CallEffect(Fn(d, "sqlStore", "add")), Check: ErrCheck(Fn("discovery/api/server/client", "HTTPClient", "Get"))})
	c16ClientVerifierIsVerifyRegistration(r)
	// background validation: an entry is kept for updateValidated only if this node's own verification succeeded
	bv := p.Func(d, "clientRegistrationManager", "validate")
	keep := InstrEffect("keep the entry in the list handed to updateValidated", func(in ssa.Instruction) bool {
		st, ok := in.(*ssa.Store)
		if !ok {
			return false
		}
		_, isIdx := st.Addr.(*ssa.IndexAddr)
		return isIdx && strings.Contains(st.Val.Type().String(), "presentationRecord")
	})
	r.Gate(Gate{ID: "C16.client.background-validated-only-after-own-verification", Fn: bv, Effect: keep, Check: ErrCheck(DynField("verifier"))})
	r.Gate(Gate{ID: "C16.client.background-validated-parsed", Fn: bv, Effect: keep, Check: ErrCheck(Fn(vcPkg, "", "ParseVerifiablePresentation"))})
	gormTxDiscipline(r, "C16.sql.tx-handle", "discovery")
	c16ValidatedByPrimaryKey(r)
	se := p.Func(d, "sqlStore", "search")
	appendEff := InstrEffect("append to search results", func(in ssa.Instruction) bool {
		c, ok := in.(*ssa.Call)
		if !ok {
			return false
		}
		b, ok := c.Call.Value.(*ssa.Builtin)
		return ok && b.Name() == "append"
	})
	r.Gate(Gate{ID: "C16.search.unexpired-only", Fn: se, Effect: appendEff, Check: CmpCheck("PresentationExpiration <= time.Now().Unix() is false", token.LEQ, FieldV("presentationRecord", "PresentationExpiration"), NowUnixV(), false)})
	c16SearchValidatedFilter(r, se)
}

func c16MethodOfSigner(r *Report, vr *ssa.Function) {
	rule := "ARG: the DID method checked against the allow-list is the method of the presentation signer"
	key := "C16.verify.did-method-of-signer"
	if vr == nil {
		r.Lost(key, rule, "function not found")
		return
	}
	var calls []ssa.CallInstruction
	for _, ci := range Calls(vr, Fn("std:slices", "", "Contains")) {
		if FieldV("ServiceDefinition", "DIDMethods").M(CallArg(ci.Common(), 0)) {
			calls = append(calls, ci)
		}
	}
	r.Sites += len(calls)
	if len(calls) != 1 {
		r.Lost(key, rule, "slices.Contains call not found")
		return
	}
	a := AccessPath(calls[0].Common().Args[1], 0)
	if !strings.Contains(a, "PresentationSigner(") || !strings.Contains(a, "Method") {
		r.Bad(key, rule, r.P.Pos(calls[0].Pos()), "checked value is "+a)
		return
	}
	r.OK(key, rule, r.P.Pos(calls[0].Pos()), a, true)
}

func c16AddTx(r *Report) {
	p := r.P
	rule := "ORDER: in sqlStore.add the timestamp increment, the removal of the subject's previous entries and the insert happen in one SQL transaction closure, increment first"
	key := "C16.store.add-in-one-transaction"
	fn := p.Func("discovery", "sqlStore", "add")
	if fn == nil {
		r.Lost(key, rule, "sqlStore.add not found")
		return
	}
	cls := ClosureArgs(fn, Fn(gormPkg, "DB", "Transaction"), 0)
	if len(cls) != 1 {
		r.Lost(key, rule, fmt.Sprintf("%d transaction closures", len(cls)))
		return
	}
	cl := cls[0]
	inc := Calls(cl, Fn("discovery", "sqlStore", "incrementTimestamp"))
	del := Calls(cl, gormModel("Delete", "presentationRecord"))
	ins := Calls(cl, Fn("discovery", "", "storePresentation"))
	r.Sites += len(inc) + len(del) + len(ins)
	if len(inc) != 1 || len(del) != 1 || len(ins) != 1 {
		r.Bad(key, rule, p.Pos(cl.Pos()), fmt.Sprintf("inside the transaction closure: increment=%d delete=%d insert=%d (each expected once)", len(inc), len(del), len(ins)))
		return
	}
	if !InstrDominates(del[0], ins[0]) {
		r.Bad(key, rule, p.Pos(ins[0].Pos()), "the previous entries are not removed before the insert")
		return
	}
	// increment precedes the insert on the server path (timestamp == 0)
	if InstrDominates(ins[0], inc[0]) {
		r.Bad(key, rule, p.Pos(inc[0].Pos()), "the increment follows the insert")
		return
	}
	// the calls use the transaction handle tx (closure parameter), not s.db
	for _, ci := range []ssa.CallInstruction{inc[0], ins[0]} {
		found := false
		for _, a := range ci.Common().Args {
			if prm, ok := a.(*ssa.Parameter); ok && prm.Parent() == cl {
				found = true
			}
		}
		if !found {
			r.Bad(key, rule, p.Pos(ci.Pos()), "a step does not use the transaction handle")
			return
		}
	}
	r.Gate(Gate{ID: "C16.store.increment-gates-insert", Fn: cl, Effect: CallEffect(Fn("discovery", "", "storePresentation")), Check: ErrCheck(Fn("discovery", "sqlStore", "incrementTimestamp")),
		Alt: []Check{ErrCheck(Fn("discovery", "sqlStore", "setTimestamp"))}})
	r.OK(key, rule, p.Pos(cl.Pos()), "increment → delete previous → insert, all on tx", true)
}

func c16GetOrder(r *Report) {
	p := r.P
	rule := "ORDER: a poll reads the service row (timestamp) before the presentation rows, so a racing registration can only make the returned timestamp under-report"
	key := "C16.store.get-timestamp-first"
	fn := p.Func("discovery", "sqlStore", "get")
	if fn == nil {
		r.Lost(key, rule, "sqlStore.get not found")
		return
	}
	var svc, rows ssa.Instruction
	for _, ci := range Calls(fn, Fn(gormPkg, "DB", "Find")) {
		t := StripConv(CallArg(ci.Common(), 0)).Type().String()
		if strings.Contains(t, "serviceRecord") {
			svc = ci
		}
		if strings.Contains(t, "presentationRecord") {
			rows = ci
		}
	}
	r.Sites += 2
	if svc == nil || rows == nil {
		r.Lost(key, rule, "the two Find calls were not recognised")
		return
	}
	if !InstrDominates(svc, rows) {
		r.Bad(key, rule, p.Pos(rows.Pos()), "the presentation rows are read before the service timestamp: a poll could return a timestamp that covers a registration it did not return")
		return
	}
	r.OK(key, rule, p.Pos(svc.Pos()), "service row read dominates presentation rows read", true)
}

func c16Wipe(r *Report) {
	p := r.P
	rule := "ORDER: on a seed change the client wipes the service's entries and resets the timestamp to 0 with a full-row Save (gorm Updates with a struct would skip the zero)"
	key := "C16.store.wipe-on-seed-change"
	fn := p.Func("discovery", "sqlStore", "wipeOnSeedChange")
	if fn == nil {
		r.Lost(key, rule, "wipeOnSeedChange not found")
		return
	}
	cls := ClosureArgs(fn, Fn(gormPkg, "DB", "Transaction"), 0)
	if len(cls) != 1 {
		r.Lost(key, rule, "transaction closure not found")
		return
	}
	cl := cls[0]
	del := Calls(cl, gormModel("Delete", "presentationRecord"))
	save := Calls(cl, Fn(gormPkg, "DB", "Save"))
	zero := false
	for _, b := range cl.Blocks {
		for _, in := range b.Instrs {
			if st, ok := in.(*ssa.Store); ok {
				if fa, ok := st.Addr.(*ssa.FieldAddr); ok && FieldPathEnds(&ssa.UnOp{Op: token.MUL, X: fa}, "LastLamportTimestamp") {
					if v, ok := ConstInt(st.Val); ok && v == 0 {
						zero = true
					}
				}
			}
		}
	}
	r.Sites += len(del) + len(save) + 1
	var problems []string
	if len(del) != 1 {
		problems = append(problems, "the wipe (Delete of the service's presentations) is missing")
	}
	if !zero {
		problems = append(problems, "LastLamportTimestamp is not set to 0")
	}
	if len(save) != 1 {
		problems = append(problems, "the service row is not written with Save (a struct-based Updates skips zero values, leaving the old timestamp)")
	} else if len(del) == 1 && !InstrDominates(del[0], save[0]) {
		problems = append(problems, "Save does not follow the wipe")
	}
	for _, ci := range Calls(cl, Fn(gormPkg, "DB", "Updates")) {
		if _, isMap := StripConv(CallArg(ci.Common(), 0)).Type().Underlying().(interface{ Key() interface{} }); !isMap {
			problems = append(problems, "gorm Updates is used at "+p.Pos(ci.Pos())+": zero-valued fields of a struct argument are not written")
		}
	}
	if len(problems) > 0 {
		r.Bad(key, rule, p.Pos(cl.Pos()), strings.Join(problems, "; "))
		return
	}
	r.Gate(Gate{ID: "C16.store.wipe-only-on-changed-seed", Fn: cl, Effect: CallEffect(gormModel("Delete", "presentationRecord")), Check: CmpCheck("service.Seed != seed", token.EQL, FieldV("serviceRecord", "Seed"), ParamV("seed"), false)})
	r.OK(key, rule, p.Pos(cl.Pos()), "Delete → timestamp=0 → Save", true)
}

// c16ClientVerifierIsVerifyRegistration: the client updater's verifier field is bound to Module.verifyRegistration.
func c16ClientVerifierIsVerifyRegistration(r *Report) {
	p := r.P
	rule := "TABLE: the client updater verifies entries with Module.verifyRegistration (the same checks as the server)"
	key := "C16.client.verifier-binding"
	sites := p.CallSites(Fn("discovery", "", "newClientUpdater"), false)
	n := 0
	for _, s := range sites {
		if p.FileClass(p.FuncPos(s.Fn)) != "prod" {
			continue
		}
		n++
		a := CallArg(s.Instr.(ssa.CallInstruction).Common(), 2)
		if !strings.Contains(AccessPath(a, 0), "verifyRegistration") {
			if mc, ok := StripConv(a).(*ssa.MakeClosure); !ok || !strings.Contains(mc.Fn.Name(), "verifyRegistration") {
				r.Bad(key, rule, p.Pos(s.Pos), "verifier argument is "+AccessPath(a, 0))
				return
			}
		}
	}
	r.Sites += n
	if n != 1 {
		r.Lost(key, rule, fmt.Sprintf("%d production constructions of the client updater", n))
		return
	}
	r.OK(key, rule, "", "newClientUpdater(…, m.verifyRegistration, …)", true)
}

func c16SearchValidatedFilter(r *Report, se *ssa.Function) {
	rule := "GATE: search adds the filter validated != 0 unless the caller explicitly allows unvalidated entries"
	key := "C16.search.validated-only"
	if se == nil {
		r.Lost(key, rule, "search not found")
		return
	}
	var where ssa.Instruction
	for _, ci := range Calls(se, Fn(gormPkg, "DB", "Where")) {
		if s, ok := ConstString(StripConv(CallArg(ci.Common(), 0))); ok && strings.Contains(s, "validated != 0") {
			where = ci
		}
	}
	r.Sites++
	if where == nil {
		r.Bad(key, rule, r.P.Pos(se.Pos()), "no Where(\"validated != 0\") filter")
		return
	}
	// with allowUnvalidated=false every path to the executing Find passes the filter: remove the filter's block and the
	// allowUnvalidated=true edge; Find must become unreachable
	finds := Calls(se, Fn(gormPkg, "DB", "Find"))
	removed := EdgeSet{}
	for _, b := range se.Blocks {
		if len(b.Instrs) == 0 {
			continue
		}
		if i, ok := b.Instrs[len(b.Instrs)-1].(*ssa.If); ok {
			c := i.Cond
			neg := false
			if u, ok := c.(*ssa.UnOp); ok && u.Op == token.NOT {
				c, neg = u.X, true
			}
			if prm, ok := c.(*ssa.Parameter); ok && prm.Name() == "allowUnvalidated" {
				// allowUnvalidated is false: cond value = neg
				if neg {
					removed[Edge{From: b, Succ: 1}] = true
				} else {
					removed[Edge{From: b, Succ: 0}] = true
				}
			}
		}
	}
	blocked := map[*ssa.BasicBlock]bool{where.Block(): true}
	reach := Reach(se.Blocks[0], removed, blocked)
	for _, f := range finds {
		if reach[f.Block()] {
			r.Bad(key, rule, r.P.Pos(f.Pos()), "the query can be executed with allowUnvalidated=false without the validated filter")
			return
		}
	}
	r.OK(key, rule, r.P.Pos(where.Pos()), "filter post-dominates the entry under allowUnvalidated=false", true)
}

// c16ValidatedByPrimaryKey: the validated flag is set on exactly the rows this node verified: the UPDATE is keyed on the
// row's primary key (id), taken from the verified record — not on an attribute several rows can share (the VP's jti,
// the subject, the service).
func c16ValidatedByPrimaryKey(r *Report) {
	p := r.P
	rule := "ARG: updateValidated sets validated = true with the condition \"id = ?\" on the primary key of the verified record"
	key := "C16.store.validated-flag-by-primary-key"
	fn := p.Func("discovery", "sqlStore", "updateValidated")
	if fn == nil {
		r.Lost(key, rule, "sqlStore.updateValidated not found")
		return
	}
	n := 0
	for _, c := range CallsDeep(fn, Fn(gormPkg, "DB", "Update")) {
		if col, ok := ConstString(StripConv(CallArg(c.Common(), 0))); !ok || col != "validated" {
			continue
		}
		n++
		// walk the fluent chain back to the Where
		var where *ssa.Call
		v := CallArg(c.Common(), -1)
		for i := 0; i < 8 && v != nil; i++ {
			call, ok := StripConv(v).(*ssa.Call)
			if !ok {
				break
			}
			if Fn(gormPkg, "DB", "Where").M(call.Common()) {
				where = call
				break
			}
			v = CallArg(call.Common(), -1)
		}
		if where == nil {
			r.Bad(key, rule, p.Pos(c.Pos()), "the validated flag is updated without a Where condition in the same statement")
			return
		}
		q := StripConv(CallArg(where.Common(), 0))
		if mi, ok := q.(*ssa.MakeInterface); ok {
			q = mi.X
		}
		qs, _ := ConstString(q)
		if strings.Join(strings.Fields(qs), " ") != "id = ?" {
			r.Bad(key, rule, p.Pos(where.Pos()), "the condition is \""+qs+"\"")
			return
		}
		els := VariadicElems(where)
		if len(els) != 1 {
			r.Bad(key, rule, p.Pos(where.Pos()), "unexpected number of condition arguments")
			return
		}
		a := StripConv(els[0])
		if mi, ok := a.(*ssa.MakeInterface); ok {
			a = mi.X
		}
		if !FieldV("presentationRecord", "ID").M(a) {
			r.Bad(key, rule, p.Pos(where.Pos()), "the key value is "+AccessPath(a, 0)+", not the record's ID")
			return
		}
	}
	r.Sites += n
	if n == 0 {
		r.Lost(key, rule, "no Update(\"validated\", …) in updateValidated")
		return
	}
	r.OK(key, rule, p.Pos(fn.Pos()), fmt.Sprintf("%d update(s), keyed on record.ID", n), true)
}

// c16ServiceRowWriters: who writes the discovery_service row (seed + last timestamp), and how. The row is created, if
// absent, at start-up (FirstOrCreate: an existing row is left alone) and fully saved by the three functions that own the
// timestamp/seed protocol. Any other write — in particular an insert/upsert at start-up, which resets seed and timestamp
// of an existing row — breaks "clients converge" (timestamps restart below what clients already hold).
func c16ServiceRowWriters(r *Report) {
	p := r.P
	byMethod := map[string][]Site{}
	methods := []string{"Create", "Save", "Update", "Updates", "UpdateColumn", "UpdateColumns", "FirstOrCreate", "FirstOrInit", "Delete", "CreateInBatches"}
	for _, m := range methods {
		for _, s := range p.CallSites(gormModel(m, "serviceRecord"), false) {
			byMethod[m] = append(byMethod[m], s)
		}
	}
	r.Own(OwnSpec{ID: "C16.service-row.created-only-if-absent", Op: "FirstOrCreate(&serviceRecord)", Sites: byMethod["FirstOrCreate"], Min: 1,
		Owners: map[string]string{"discovery.newSQLStore": "start-up: makes sure a row exists, leaves an existing row (seed, timestamp) alone"}})
	r.Own(OwnSpec{ID: "C16.service-row.saved-only-by-the-timestamp-protocol", Op: "Save(&serviceRecord)", Sites: byMethod["Save"], Min: 3,
		Owners: map[string]string{
			"(*discovery.sqlStore).incrementTimestamp": "server: next timestamp inside the add transaction",
			"(*discovery.sqlStore).setTimestamp":       "client: timestamp/seed received from the server",
			"(*discovery.sqlStore).wipeOnSeedChange":   "client: seed change resets the list",
			"(*discovery.sqlStore).wipeOnSeedChange$1": "client: seed change resets the list",
		}})
	var others []Site
	for _, m := range methods {
		if m == "FirstOrCreate" || m == "Save" {
			continue
		}
		others = append(others, byMethod[m]...)
	}
	r.Own(OwnSpec{ID: "C16.service-row.no-other-writes", Op: "Create/Update/Delete/upsert of a serviceRecord", Sites: others, Min: 0, Owners: map[string]string{}})
}

// c16MatchedSetFromMatch: the membership set tested in validateRegistration is filled (with true) in a loop over the first
// result of PresentationDefinition.Match.
func c16MatchedSetFromMatch(r *Report, vg *ssa.Function) {
	rule := "ARG: the set of acceptable credentials is built from the credentials returned by PresentationDefinition.Match"
	if vg == nil {
		r.Lost("C16.registration.matched-set-from-match", rule, "function not found")
		return
	}
	key := "C16.registration.matched-set-from-match @ " + r.P.FuncName(vg)
	var matchRes ssa.Value
	for _, c := range Calls(vg, Fn("vcr/pe", "PresentationDefinition", "Match")) {
		if call, ok := c.(*ssa.Call); ok {
			for _, ref := range *call.Referrers() {
				if ex, isEx := ref.(*ssa.Extract); isEx && ex.Index == 0 {
					matchRes = ex
				}
			}
		}
	}
	if matchRes == nil {
		r.Lost(key, rule, "Match result not found")
		return
	}
	loops := Loops(vg)
	for _, b := range vg.Blocks {
		for _, in := range b.Instrs {
			mu, ok := in.(*ssa.MapUpdate)
			if !ok {
				continue
			}
			if v, isB := ConstBool(mu.Value); !isB || !v {
				continue
			}
			r.Sites++
			if l := InnermostLoop(loops, b); l != nil && rangesOver(l, matchRes) {
				r.OK(key, rule, r.P.Pos(mu.Pos()), "filled in the loop over Match()'s credentials", true)
				return
			}
		}
	}
	r.Bad(key, rule, r.P.Pos(vg.Pos()), "no `set[...] = true` inside a loop over the credentials returned by Match")
}

// c16ClientProgress: the client's replica converges — (a) entries are processed in registration (timestamp) order and each is
// stored with its OWN timestamp, so an interrupted update resumes at the entry it stopped at (fix: every entry was stored
// with the server's latest timestamp); (b) after the store was wiped because the seed changed, the response requested with
// the old timestamp is discarded and the update starts over (fix: entries of the new server instance at or below the old
// timestamp were never fetched).
func c16ClientProgress(r *Report, us *ssa.Function) {
	p := r.P
	const d = "discovery"
	add := Fn(d, "sqlStore", "add")
	r.ArgIs("C16.client.entry-stored-with-its-own-timestamp", us, add, 3, FieldV("entry", "timestamp"), 1)
	ruleO := "ORDER: the entries are sorted (by timestamp) before the first one is stored"
	keyO := "C16.client.entries-in-timestamp-order"
	ruleW := "ORDER: after wipeOnSeedChange the stored timestamp is read again, and a timestamp of 0 (wiped) leads to a restart of updateService instead of applying the response"
	keyW := "C16.client.restart-after-wipe"
	if us == nil {
		r.Lost(keyO, ruleO, "updateService not found")
		r.Lost(keyW, ruleW, "updateService not found")
		return
	}
	keyO += " @ " + p.FuncName(us)
	keyW += " @ " + p.FuncName(us)
	adds := Calls(us, add)
	sorts := Calls(us, AnyOf(Fn("std:sort", "", "SliceStable"), Fn("std:sort", "", "Slice"), Fn("std:slices", "", "SortFunc"), Fn("std:slices", "", "SortStableFunc")))
	r.Sites += len(adds) + len(sorts)
	okO := len(adds) > 0 && len(sorts) > 0
	for _, a := range adds {
		dom := false
		for _, s := range sorts {
			if InstrDominates(s, a) {
				dom = true
			}
		}
		okO = okO && dom
	}
	if okO {
		r.OK(keyO, ruleO, p.Pos(us.Pos()), "sort dominates every store.add", true)
	} else {
		r.Bad(keyO, ruleO, p.Pos(us.Pos()), "store.add is reachable without a preceding sort of the response's entries")
	}
	wipes := Calls(us, Fn(d, "sqlStore", "wipeOnSeedChange"))
	var reread *ssa.Call
	for _, g := range Calls(us, Fn(d, "sqlStore", "getTimestamp")) {
		for _, w := range wipes {
			if c, ok := g.(*ssa.Call); ok && InstrDominates(w, g) {
				reread = c
			}
		}
	}
	r.Sites += len(wipes)
	if reread == nil {
		r.Bad(keyW, ruleW, p.Pos(us.Pos()), "the stored timestamp is not read again after wipeOnSeedChange: a wipe goes unnoticed")
		return
	}
	var ts ssa.Value
	for _, ref := range *reread.Referrers() {
		if ex, ok := ref.(*ssa.Extract); ok && ex.Index == 0 {
			ts = ex
		}
	}
	restart := SSAFn(us, "updateService (start over)")
	g := Gate{Fn: us, Effect: CallEffect(restart), Check: CmpCheck("timestamp after wipe == 0", token.EQL, VPat{Desc: "the re-read timestamp", M: func(v ssa.Value) bool { return v == ts }}, IntV(0), true)}
	res := p.RunGate(&g)
	if ts == nil || res.CheckSites == 0 || res.EffectSites == 0 || len(res.Violations) > 0 {
		r.Bad(keyW, ruleW, p.Pos(reread.Pos()), "no restart of updateService behind `re-read timestamp == 0`")
		return
	}
	// and the restart is taken whenever that holds (the response is not applied): the zero edge leads only to the restart
	r.MustReach(MustReach{ID: "C16.client.restart-after-wipe.response-discarded", Fn: us, Cond: CmpCheck("timestamp after wipe == 0", token.EQL, VPat{Desc: "the re-read timestamp", M: func(v ssa.Value) bool { return v == ts }}, IntV(0), true), Target: restart})
	r.OK(keyW, ruleW, p.Pos(reread.Pos()), "getTimestamp after the wipe; == 0 restarts", true)
}
