package props

import (
	"fmt"
	"go/ast"
	"go/types"
	"strings"

	. "verifcheck/an"
)

// c02Audit3: rules recorded with the third audit round's repairs.
func c02Audit3(r *Report) {
	p := r.P
	const iam = "auth/api/iam"
	jwtTok := "github.com/lestrrat-go/jwx/v2/jwt"
	timeAdd := CallV(Fn("std:time", "Time", "Add"), -1)
	// (a) the maximum validity bounds the use of a presentation only when an expired presentation is refused; the JWT library
	//     regards exp = 0 as "no expiry", so the grant handlers compare the expiry with the clock (and with the creation) themselves
	mv := p.Func(iam, "", "validateS2SPresentationMaxValidity")
	r.Gate(Gate{ID: "C02.inner.validity.not-expired", Fn: mv, Effect: SuccessReturn(),
		Check: TimeOrder("time.Now().After(expires + skew) is false", timeAdd, NowV(), IsFalse)})
	r.Gate(Gate{ID: "C02.inner.validity.expires-after-created", Fn: mv, Effect: SuccessReturn(),
		Check: TimeOrder("expires.Before(created) is false", CallV(Fn("vcr/credential", "", "PresentationExpirationDate"), -1), CallV(Fn("vcr/credential", "", "PresentationIssuanceDate"), -1), IsFalse)})
	va := p.Func("auth/services/oauth", "authzServer", "validateAccessTokenRequest")
	r.Gate(Gate{ID: "C02.v1.grant-not-expired", Fn: va, Effect: SuccessReturn(),
		Check: TimeOrder("time.Now().After(exp + skew) is false", timeAdd, NowV(), IsFalse)})
	r.Gate(Gate{ID: "C02.v1.grant-expires-after-issued", Fn: va, Effect: SuccessReturn(),
		Check: TimeOrder("exp.Before(iat) is false", CallV(Fn(jwtTok, "Token", "Expiration"), -1), CallV(Fn(jwtTok, "Token", "IssuedAt"), -1), IsFalse)})
	// (b) a defined type does not inherit the methods of the type it is defined from: a response type defined from a type
	//     with its own MarshalJSON (the one that writes the additional properties, i.e. the credential-derived claims) needs its own
	rule := "TABLE: every type of auth/api/iam defined from the introspection response type (which has a MarshalJSON method that writes the credential-derived claims) declares MarshalJSON itself (a defined type inherits no methods; encoding/json would drop what the custom marshaller writes)"
	key := "C02.introspect.response-types-marshal-claims"
	n := 0
	var bad []string
	for _, pk := range p.Pkgs {
		if pk.Types == nil || pk.TypesInfo == nil || pk.PkgPath != ModPath+"/"+iam {
			continue
		}
		for _, f := range pk.Syntax {
			for _, d := range f.Decls {
				gd, ok := d.(*ast.GenDecl)
				if !ok {
					continue
				}
				for _, sp := range gd.Specs {
					ts, ok := sp.(*ast.TypeSpec)
					if !ok || ts.Assign.IsValid() || ts.TypeParams != nil {
						continue
					}
					var id *ast.Ident
					switch x := ts.Type.(type) {
					case *ast.Ident:
						id = x
					case *ast.SelectorExpr:
						id = x.Sel
					}
					if id == nil {
						continue
					}
					from, _ := pk.TypesInfo.Uses[id].(*types.TypeName)
					def, _ := pk.TypesInfo.Defs[ts.Name].(*types.TypeName)
					if from == nil || def == nil {
						continue
					}
					if nm, isNamed := types.Unalias(from.Type()).(*types.Named); !isNamed || nm.Obj().Name() != "ExtendedTokenIntrospectionResponse" {
						continue
					}
					has := func(t types.Type) bool {
						o, _, _ := types.LookupFieldOrMethod(types.NewPointer(t), true, pk.Types, "MarshalJSON")
						_, isF := o.(*types.Func)
						return isF
					}
					if !has(from.Type()) {
						continue
					}
					n++
					if !has(def.Type()) {
						bad = append(bad, fmt.Sprintf("%s: type %s %s", p.Pos(ts.Pos()), def.Name(), from.Name()))
					}
				}
			}
		}
	}
	r.Sites += n
	switch {
	case n < 2:
		r.Lost(key, rule, fmt.Sprintf("%d defined types over a type with MarshalJSON (expected >= 2: the two introspection responses)", n))
	case len(bad) > 0:
		for _, b := range bad {
			r.Bad(key, rule, strings.SplitN(b, ": ", 2)[0], strings.SplitN(b, ": ", 2)[1]+" has no MarshalJSON of its own: the members the custom marshaller adds are dropped from the response")
		}
	default:
		r.OK(key, rule, "", fmt.Sprintf("%d defined type(s)", n), true)
	}
}
