package props

import (
	"fmt"
	"go/constant"
	"go/token"
	"go/types"
	"sort"
	"strings"

	"golang.org/x/tools/go/ssa"

	. "verifcheck/an"
)

// c17Audit3: rules recorded with the third audit round's repairs.
func c17Audit3(r *Report, kidAlg, pj, pjs, dp, cis, mw, sigV *ssa.Function) {
	p := r.P
	const jwtPkg = "github.com/lestrrat-go/jwx/v2/jwt"
	const jwsPkg = "github.com/lestrrat-go/jwx/v2/jws"
	// (a) "verified over the exact bytes received": the JWS library decodes each compact segment leniently (padding, the
	//     standard alphabet, line breaks, unused trailing bits) and verifies over its own re-encoding; the consumers accept
	//     the canonical encoding only
	vcs := Fn("crypto/jwx", "", "ValidateCompactSerialization")
	r.Gate(Gate{ID: "C17.canonical-encoding.jwt", Fn: kidAlg, Effect: SuccessReturn(), Check: ErrCheck(vcs)})
	r.ArgIs("C17.canonical-encoding.jwt.of-the-token", kidAlg, vcs, 0, DerivedV(ParamV("tokenString")), 1)
	r.Gate(Gate{ID: "C17.canonical-encoding.dpop", Fn: dp, Effect: CallEffect(Fn(jwtPkg, "", "ParseString")), Check: ErrCheck(vcs)})
	r.ArgIs("C17.canonical-encoding.dpop.of-the-token", dp, vcs, 0, DerivedV(ParamV("s")), 1)
	r.Gate(Gate{ID: "C17.canonical-encoding.tokenv2", Fn: cis, Effect: SuccessReturn(), Check: ErrCheck(vcs)})
	r.ArgIs("C17.canonical-encoding.tokenv2.of-the-token", cis, vcs, 0, DerivedV(ParamV("credential")), 1)
	vf := p.Func("crypto/jwx", "", "ValidateCompactSerialization")
	r.Gate(Gate{ID: "C17.canonical-encoding.three-segments", Fn: vf, Effect: SuccessReturn(), Check: CmpCheck("len(segments) == 3", token.EQL, LenV(CallV(Fn("std:bytes", "", "Split"), -1)), IntV(3), true)})
	r.Gate(Gate{ID: "C17.canonical-encoding.segment-decodes", Fn: vf, Effect: SuccessReturn(), ForEach: true, Check: ErrCheck(Fn("std:encoding/base64", "Encoding", "DecodeString"))})
	r.Gate(Gate{ID: "C17.canonical-encoding.segment-re-encodes-to-itself", Fn: vf, Effect: SuccessReturn(), ForEach: true,
		Check: CmpCheck("EncodeToString(decoded) == segment", token.EQL, CallV(Fn("std:encoding/base64", "Encoding", "EncodeToString"), -1), AnyV(), true)})
	// (b) "an allowed algorithm that fits the verification key": the library matches the key family only (ES256 verifies
	//     with a P-384 key); every consumer that takes the algorithm from the token checks it against the key it verifies with
	fit := Fn("crypto/jwx", "", "ValidateAlgorithmForKey")
	r.Gate(Gate{ID: "C17.alg-fits-key.parsejwt", Fn: pj, Effect: CallEffect(Fn(jwtPkg, "", "ParseString")), Check: ErrCheck(fit)})
	r.ArgIs("C17.alg-fits-key.parsejwt.the-resolved-key", pj, fit, 1, DerivedOrIface(CallV(DynParam("f"), 0)), 1)
	r.Gate(Gate{ID: "C17.alg-fits-key.parsejws", Fn: pjs, Effect: CallEffect(Fn(jwsPkg, "Verifier", "Verify")), Check: ErrCheck(fit)})
	r.ArgIs("C17.alg-fits-key.parsejws.the-resolved-key", pjs, fit, 1, DerivedOrIface(CallV(DynParam("f"), 0)), 1)
	r.Gate(Gate{ID: "C17.alg-fits-key.dpop", Fn: dp, Effect: CallEffect(Fn(jwtPkg, "", "ParseString")), Check: ErrCheck(fit)})
	r.Gate(Gate{ID: "C17.alg-fits-key.dag", Fn: sigV, Effect: CallEffect(Fn(jwsPkg, "", "Verify")), Check: ErrCheck(fit)})
	// ... and it is the token's own algorithm (the one the verification will run with) that is compared with the key
	algOf := func(c Callee, idx int) VPat { return DerivedOrIface(VPat{Desc: "the token's alg", M: func(v ssa.Value) bool { return CallV(c, idx).M(StripConv(v)) }}) }
	r.ArgIs("C17.alg-fits-key.parsejwt.the-token-alg", pj, fit, 0, algOf(Fn("crypto", "", "JWTKidAlg"), 1), 1)
	r.ArgIs("C17.alg-fits-key.dpop.the-token-alg", dp, fit, 0, algOf(Fn(jwsPkg, "Headers", "Algorithm"), -1), 1)
	r.ArgIs("C17.alg-fits-key.dag.the-token-alg", sigV, fit, 0, algOf(p.FnOrImpl("network/dag", "Signable", "SigningAlgorithm"), -1), 1)
	r.ArgIs("C17.alg-fits-key.tokenv2.the-token-alg", mw, fit, 0, algOf(Fn("http/tokenV2", "", "credentialAlgorithm"), -1), 1)
	r.Gate(Gate{ID: "C17.alg-fits-key.tokenv2", Fn: mw, Effect: CallEffect(Fn(jwtPkg, "", "ParseString")), Check: ErrCheck(fit),
		Alt: []Check{CallCheck(Fn("github.com/lestrrat-go/jwx/v2/jwk", "Set", "Key"), 1, IsFalse)}, Note: "an authorised-keys entry without a key verifies nothing"})
	// the rule itself: one algorithm per curve, RSA algorithms for RSA keys, EdDSA for Ed25519
	rule := "TABLE: crypto/jwx.ecdsaAlgorithms maps each curve to its one algorithm (P-256:ES256, P-384:ES384, P-521:ES512, secp256k1:ES256K)"
	key := "C17.alg-fits-key.curve-table"
	want := map[string]string{"P-256": "ES256", "P-384": "ES384", "P-521": "ES512", "secp256k1": "ES256K"}
	got, pos := mapLiteralStrings(p, "crypto/jwx", "ecdsaAlgorithms")
	r.Sites += len(got)
	switch {
	case got == nil:
		r.Lost(key, rule, "map literal not found")
	default:
		var diff []string
		for k, v := range got {
			if want[k] != v {
				diff = append(diff, k+":"+v)
			}
		}
		sort.Strings(diff)
		if len(diff) > 0 {
			r.Bad(key, rule, pos, "entries that pair a curve with another algorithm: "+strings.Join(diff, ", "))
		} else {
			r.OK(key, rule, pos, fmt.Sprintf("%d entries", len(got)), true)
		}
	}
	ff := p.Func("crypto/jwx", "", "ValidateAlgorithmForKey")
	// the ECDSA verdict is the table's: presence of the comparison ecdsaAlgorithms[curve] == alg (its result is merged into
	// the verdict through a phi, so only the comparison itself is decided here)
	cp := CmpPat{Op: token.EQL, PassWhen: true, R: ParamV("alg"), L: VPat{Desc: "ecdsaAlgorithms[curve name]", M: func(v ssa.Value) bool {
		l, ok := v.(*ssa.Lookup)
		if !ok {
			return false
		}
		u, isU := l.X.(*ssa.UnOp)
		if !isU {
			return false
		}
		g, isG := u.X.(*ssa.Global)
		return isG && g.Name() == "ecdsaAlgorithms"
	}}}
	rule2 := "ARG: ValidateAlgorithmForKey compares ecdsaAlgorithms[curve of the key] with the algorithm"
	key2 := "C17.alg-fits-key.ecdsa-by-curve"
	if ff == nil {
		r.Lost(key2, rule2, "ValidateAlgorithmForKey not found")
		return
	}
	n := 0
	for _, b := range ff.Blocks {
		for _, in := range b.Instrs {
			if bin, ok := in.(*ssa.BinOp); ok {
				if _, m := cp.Match(bin); m {
					n++
				}
			}
		}
	}
	r.Sites += n
	if n == 0 {
		r.Bad(key2, rule2, p.Pos(ff.Pos()), "no such comparison")
	} else {
		r.OK(key2, rule2, p.Pos(ff.Pos()), "", true)
	}
}

// DerivedOrIface: the value, or the value wrapped in an interface / converted.
func DerivedOrIface(inner VPat) VPat {
	return VPat{Desc: inner.Desc, M: func(v ssa.Value) bool {
		for d := 0; d < 4; d++ {
			if inner.M(v) {
				return true
			}
			switch x := v.(type) {
			case *ssa.MakeInterface:
				v = x.X
			case *ssa.ChangeInterface:
				v = x.X
			case *ssa.ChangeType:
				v = x.X
			default:
				return false
			}
		}
		return false
	}}
}

// mapLiteralStrings reads a package-level `var name = map[string]T{"k": Const, ...}` from the package initialiser: key
// string -> the value's constant (string form).
func mapLiteralStrings(p *Prog, pkgRel, name string) (map[string]string, string) {
	pk := p.Pkg(pkgRel)
	if pk == nil {
		return nil, ""
	}
	sp := p.SSAPkgs[pk.PkgPath]
	if sp == nil {
		return nil, ""
	}
	g, _ := sp.Members[name].(*ssa.Global)
	init := sp.Func("init")
	if g == nil || init == nil {
		return nil, ""
	}
	out := map[string]string{}
	for _, b := range init.Blocks {
		for _, in := range b.Instrs {
			mu, ok := in.(*ssa.MapUpdate)
			if !ok {
				continue
			}
			// the map value that is later stored into the global
			stored := false
			for _, ref := range *mu.Map.Referrers() {
				if st, isSt := ref.(*ssa.Store); isSt && st.Addr == ssa.Value(g) {
					stored = true
				}
			}
			if !stored {
				continue
			}
			k, isK := mu.Key.(*ssa.Const)
			v, isV := StripConv(mu.Value).(*ssa.Const)
			if !isK || !isV || k.Value == nil || v.Value == nil || k.Value.Kind() != constant.String {
				return nil, ""
			}
			vs := v.Value.ExactString()
			if v.Value.Kind() == constant.String {
				vs = constant.StringVal(v.Value)
			}
			out[constant.StringVal(k.Value)] = vs
		}
	}
	if len(out) == 0 {
		return nil, ""
	}
	_ = types.Typ
	return out, p.Pos(g.Pos())
}
