package props

import (
	"fmt"
	"go/token"
	"go/types"
	"strings"

	"golang.org/x/tools/go/ssa"

	. "verifcheck/an"
)

func init() { Registry["C12"] = c12 }

const pePkg = "vcr/pe"
const goDidVC = "github.com/nuts-foundation/go-did/vc"

func c12(r *Report) {
	defer c12Seed8(r)
	defer c12Seed5(r)
	defer c12Seed6(r)
	p := r.P
	r.Explanation = "The agreement between the wallet's Match and the verifier's Validate over all definitions and wallets is a relation between two computations on run-time values and is NOT decided. Decided are the structural necessary conditions on both sides. Verifier: Validate succeeds (non-empty envelope) only after Resolve, per-presentation signer derivation, re-matching (Build), equal credential counts and a per-descriptor raw-credential comparison, and returns the re-matched credentials; the empty-envelope success is reachable only when the definition requires no credentials; Resolve refuses a second mapping for the same descriptor and records only successfully resolved credentials; resolveCredential yields a credential only via a successful JSONPath lookup, a parse in the format the mapping names and a checked type assertion (or the nested mapping). Wallet: a candidate gets a credential only if the constraints and both format designations match; matchCredential/matchConstraint/matchField/matchFilter report a match only through their sub-matchers (every type-switch arm of matchFilter compares filter.Type before the type-only success); matchBasic succeeds only if no descriptor is unmatched; Build reports an error when nothing was selected and credentials are required; the submission-requirement rules (all/count/min) refuse short selections; the i-th mapping's path index equals its position and refers to the i-th returned credential taken from the same candidate as the descriptor id; credential equality is whole-content equality. Claims: a duplicate constraint field id across definitions is refused."
	r.NotDecided = []string{"Match/Validate agreement over generated definitions and wallets (relational, run-time)", "JSONPath / regular-expression semantics", "submission-requirement arithmetic beyond the refusal comparisons (e.g. max=0)", "duplicate field ids within one definition (ResolveConstraintsFields lets the last credential win)"}

	// ---------- verifier ----------
	val := p.Func(pePkg, "PresentationSubmission", "Validate")
	emptyEnv := CmpCheck("len(envelope.Presentations) == 0", token.EQL, LenV(FieldV("Envelope", "Presentations")), IntV(0), true)
	finalOK := c12ReturnsPopulatedMap()
	r.Gate(Gate{ID: "C12.validate.resolve", Fn: val, Effect: SuccessReturn(), Check: ErrCheck(Fn(pePkg, "PresentationSubmission", "Resolve")), MinEffects: 2})
	r.Gate(Gate{ID: "C12.validate.empty-only-if-nothing-required", Fn: val, Effect: SuccessReturn(), Check: CallCheck(Fn(pePkg, "PresentationDefinition", "CredentialsRequired"), -1, IsFalse),
		Alt: []Check{CmpCheck("len(envelope.Presentations) == 0 is false", token.EQL, LenV(FieldV("Envelope", "Presentations")), IntV(0), false)}})
	build := Fn(pePkg, "PresentationSubmissionBuilder", "Build")
	r.Gate(Gate{ID: "C12.validate.signer-per-presentation", Fn: val, Effect: CallEffect(build), ForEach: true, Check: ErrCheck(Fn("vcr/credential", "", "PresentationSigner"))})
	r.Gate(Gate{ID: "C12.validate.rematch", Fn: val, Effect: SuccessReturn(), Check: ErrCheck(build), Alt: []Check{emptyEnv}})
	r.Gate(Gate{ID: "C12.validate.count", Fn: val, Effect: SuccessReturn(), Alt: []Check{emptyEnv},
		Check: CmpCheck("len(actual) == len(expected)", token.EQL, LenV(CallV(Fn(pePkg, "PresentationSubmission", "Resolve"), 0)), LenV(AnyV()), true)})
	raw := CallV(Fn(goDidVC, "VerifiableCredential", "Raw"), -1)
	r.Gate(Gate{ID: "C12.validate.raw-per-descriptor", Fn: val, Effect: finalOK, ForEach: true, Check: CmpCheck("actual[id].Raw() == expected.Raw()", token.EQL, raw, raw, true)})
	c12ExpectedMap(r, val)

	res := p.Func(pePkg, "PresentationSubmission", "Resolve")
	upd := InstrEffect("record a resolved credential", func(in ssa.Instruction) bool { _, ok := in.(*ssa.MapUpdate); return ok })
	r.Gate(Gate{ID: "C12.resolve.recorded-only-if-resolved", Fn: res, Effect: upd, Check: ErrCheck(Fn(pePkg, "", "resolveCredential"))})
	r.Gate(Gate{ID: "C12.resolve.no-duplicate-descriptor", Fn: res, Effect: upd, Check: MapOKPol("", IsFalse)})
	// ... and a second mapping for the same descriptor is an error, not something to skip: a surplus (possibly forged) entry is rejected
	r.Refuse(Refuse{ID: "C12.resolve.duplicate-descriptor-is-rejected", Fn: res, Cond: MapOKPol("", IsTrue), Effect: SuccessReturn()})
	// CredentialsRequired answers "no" only when the definition has no input descriptors at all (no constant false)
	r.Gate(Gate{ID: "C12.credentials-required.false-only-without-descriptors", Fn: p.Func(pePkg, "PresentationDefinition", "CredentialsRequired"), Effect: ReturnsBool(0, false),
		Check: CmpCheck("len(InputDescriptors) > 0 is false", token.LSS, IntV(0), LenV(FieldV("PresentationDefinition", "InputDescriptors")), false)})
	rc := p.Func(pePkg, "", "resolveCredential")
	nested := CmpCheck("mapping.PathNested == nil is false", token.EQL, FieldV("InputDescriptorMappingObject", "PathNested"), NilV(), false)
	r.Gate(Gate{ID: "C12.resolveCredential.path-resolves", Fn: rc, Effect: ReturnsNonNil(0), Check: ErrCheck(Fn("github.com/PaesslerAG/jsonpath", "", "Get"))})
	r.Gate(Gate{ID: "C12.resolveCredential.is-a-credential", Fn: rc, Effect: ReturnsNonNil(0), Check: AssertOK("*" + goDidVC + ".VerifiableCredential"), Alt: []Check{nested}})
	r.Gate(Gate{ID: "C12.resolveCredential.parse-in-named-format", Fn: rc, Effect: CallEffect(AnyOf(Fn(goDidVC, "", "ParseVerifiableCredential"), Fn(goDidVC, "", "ParseVerifiablePresentation"))), MinEffects: 4,
		Check: CmpCheck("mapping.Format == <format constant>", token.EQL, FieldV("InputDescriptorMappingObject", "Format"), AnyV(), true)})
	r.Gate(Gate{ID: "C12.resolveCredential.decoded", Fn: rc, Effect: ReturnsNonNil(0), Check: CmpCheck("decodedTargetValue == nil is false", token.EQL, TypeIsV("interface{}", "any"), NilV(), false)})

	// claims
	riv := p.Func("auth/api/iam", "", "resolveInputDescriptorValues")
	r.Gate(Gate{ID: "C12.claims.no-duplicate-field-id", Fn: riv, Effect: upd, Check: MapOKPol("", IsFalse)})
	r.Gate(Gate{ID: "C12.claims.resolved", Fn: riv, Effect: upd, Check: ErrCheck(Fn(pePkg, "PresentationDefinition", "ResolveConstraintsFields"))})
	rcf := p.Func(pePkg, "PresentationDefinition", "ResolveConstraintsFields")
	r.Gate(Gate{ID: "C12.claims.values-from-matchConstraint", Fn: rcf, Effect: upd, Check: ErrCheck(Fn(pePkg, "", "matchConstraint"))})
	c12ClaimValuesFromMatch(r, rcf)

	// ---------- wallet ----------
	mcs := p.Func(pePkg, "PresentationDefinition", "matchConstraints")
	setVC := InstrEffect("attach a credential to the candidate", func(in ssa.Instruction) bool {
		st, ok := in.(*ssa.Store)
		if !ok {
			return false
		}
		fa, ok := st.Addr.(*ssa.FieldAddr)
		return ok && FieldV("Candidate", "VC").M(fa) || ok && fieldIs(fa, "Candidate", "VC")
	})
	r.Gate(Gate{ID: "C12.wallet.candidate-matches-constraints", Fn: mcs, Effect: setVC, Check: CallCheck(Fn(pePkg, "", "matchCredential"), 0, IsTrue)})
	mf := Fn(pePkg, "", "matchFormat")
	fmtCheck := func(typ string) Check {
		c := CallCheck(mf, -1, IsTrue)
		c.Desc = "matchFormat(" + typ + ".Format, credential) true"
		c.Filter = func(ci ssa.CallInstruction) bool { return FieldV(typ, "Format").M(ci.Common().Args[0]) }
		return c
	}
	r.Gate(Gate{ID: "C12.wallet.candidate-matches-definition-format", Fn: mcs, Effect: setVC, Check: fmtCheck("PresentationDefinition")})
	r.Gate(Gate{ID: "C12.wallet.candidate-matches-descriptor-format", Fn: mcs, Effect: setVC, Check: fmtCheck("InputDescriptor")})
	c12Audit3(r)
	mc := p.Func(pePkg, "", "matchCredential")
	r.Gate(Gate{ID: "C12.wallet.matchCredential", Fn: mc, Effect: ReturnsBool(0, true), Check: CallCheck(Fn(pePkg, "", "matchConstraint"), 0, IsTrue),
		Alt: []Check{CmpCheck("descriptor.Constraints == nil", token.EQL, FieldV("InputDescriptor", "Constraints"), NilV(), true)}})
	mco := p.Func(pePkg, "", "matchConstraint")
	r.Gate(Gate{ID: "C12.wallet.matchConstraint.every-field", Fn: mco, Effect: ReturnsBool(0, true), ForEach: true, Check: CallCheck(Fn(pePkg, "", "matchField"), 0, IsTrue)})
	mfi := p.Func(pePkg, "", "matchField")
	r.Gate(Gate{ID: "C12.wallet.matchField", Fn: mfi, Effect: ReturnsBool(0, true), Check: CallCheck(Fn(pePkg, "", "matchFilter"), 0, IsTrue),
		Alt: []Check{CmpCheck("field.Filter == nil", token.EQL, FieldV("Field", "Filter"), NilV(), true), CmpCheck("optionalInvalid == 0", token.EQL, TypeIsV("int"), IntV(0), true)}})
	r.Gate(Gate{ID: "C12.wallet.matchField.value-present", Fn: mfi, Effect: ReturnsBool(0, true), Check: CmpCheck("value == nil is false", token.EQL, CallV(Fn(pePkg, "", "getValueAtPath"), 0), NilV(), false),
		Alt: []Check{CmpCheck("optionalInvalid == 0", token.EQL, TypeIsV("int"), IntV(0), true)}})
	c12MatchedValue(r, mfi)
	mfl := p.Func(pePkg, "", "matchFilter")
	r.Gate(Gate{ID: "C12.wallet.matchFilter.type-compared-on-every-arm", Fn: mfl, Effect: ReturnsBool(0, true),
		Check: CmpCheck("filter.Type == <type name>", token.EQL, FieldV("Filter", "Type"), AnyV(), true),
		Alt:   []Check{CallCheck(Fn(pePkg, "", "matchFilter"), 0, IsTrue)}})
	r.Gate(Gate{ID: "C12.wallet.matchFilter.const", Fn: mfl, Effect: ReturnsBool(0, true),
		Check: CmpCheck("value == *filter.Const", token.EQL, AnyV(), PathV("Const"), true),
		Alt:   []Check{CmpCheck("filter.Const == nil", token.EQL, FieldV("Filter", "Const"), NilV(), true), CallCheck(Fn(pePkg, "", "matchFilter"), 0, IsTrue)}})

	mb := p.Func(pePkg, "PresentationDefinition", "matchBasic")
	r.Gate(Gate{ID: "C12.wallet.matchBasic.complete-or-error", Fn: mb, Effect: SuccessReturn(), Check: CmpCheck("len(descriptorsNotMatched) > 0 is false", token.LSS, IntV(0), LenV(AnyV()), false)})
	// claims extraction evaluates each credential against the constraints of ITS input descriptor, looked up in this
	// iteration: a lookup variable that survives the iteration hands an unknown id the previous descriptor's constraints
	c12FreshConstraints(r)
	// the credentials signed into the presentation are — same list, same order, nothing removed — the ones the submission's
	// descriptor-map paths index: from the builder's sign instruction down to the VerifiableCredential member of the VP
	const holderPkg = "vcr/holder"
	r.ArgIs("C12.present.submission-list-is-presented", p.Func(holderPkg, "presenter", "buildSubmission"), Fn(holderPkg, "presenter", "buildPresentation"), 2, FieldV("SignInstruction", "VerifiableCredentials"), 1)
	r.ArgIs("C12.present.list-handed-down-unchanged", p.Func(holderPkg, "presenter", "buildPresentation"), AnyOf(Fn(holderPkg, "presenter", "buildJWTPresentation"), Fn(holderPkg, "presenter", "buildJSONLDPresentation")), 2, ParamV("credentials"), 2)
	r.FieldStoredIs("C12.present.jwt-carries-the-list", p.Func(holderPkg, "presenter", "buildJWTPresentation"), "VerifiablePresentation", "VerifiableCredential", ParamV("credentials"), 1)
	r.FieldStoredIs("C12.present.jsonld-carries-the-list", p.Func(holderPkg, "presenter", "buildJSONLDPresentation"), "VerifiablePresentation", "VerifiableCredential", ParamV("credentials"), 1)
	appendCallee := Callee{Desc: "append", M: func(cc *ssa.CallCommon) bool { b, ok := cc.Value.(*ssa.Builtin); return ok && b.Name() == "append" }}
	r.MustReach(MustReach{ID: "C12.wallet.matchBasic.unmatched-recorded", Fn: mb, Cond: CmpCheck("candidate.VC == nil", token.EQL, FieldV("Candidate", "VC"), NilV(), true), Target: appendCallee})
	bd := p.Func(pePkg, "PresentationSubmissionBuilder", "Build")
	r.Assumptions = append(r.Assumptions, "PresentationSubmissionBuilder.Build is called with at least one wallet (presenter: callers refuse an empty DID list; Validate: len(envelope.Presentations) > 0). With zero wallets errors.Join(nil...) is nil and b.holders[0] would be out of range.")
	r.Gate(Gate{ID: "C12.wallet.build.nothing-selected-is-an-error", Fn: bd, Effect: ConstNilReturn(), Check: CallCheck(Fn(pePkg, "PresentationDefinition", "CredentialsRequired"), -1, IsFalse),
		Alt: []Check{CmpCheck("selectedDID == nil is false", token.EQL, TypeIsV("*github.com/nuts-foundation/go-did/did.DID"), NilV(), false)}})
	c12BuildSelection(r, bd)
	msr := p.Func(pePkg, "PresentationDefinition", "matchSubmissionRequirements")
	r.Gate(Gate{ID: "C12.wallet.requirements.each-matched", Fn: msr, Effect: SuccessReturn(), ForEach: true, Check: ErrCheck(Fn(pePkg, "SubmissionRequirement", "match"))})
	r.Gate(Gate{ID: "C12.wallet.requirements.groups-available", Fn: msr, Effect: SuccessReturn(), ForEach: true, Check: MapOK("")})
	c12Pairing(r, mb, false)
	c12Pairing(r, msr, true)
	c12WalletOrder(r, mb, msr)
	c12WholeValueWithoutCapture(r)
	c12Apply(r)
	srm := p.Func(pePkg, "SubmissionRequirement", "match")
	okRet := AnyEffect(CallEffect(Fn(pePkg, "SubmissionRequirement", "from")), CallEffect(Fn(pePkg, "SubmissionRequirement", "fromNested")))
	r.Gate(Gate{ID: "C12.wallet.requirement.known-rule", Fn: srm, Effect: okRet, Check: CmpCheck("Rule == \"all\"", token.EQL, FieldV("SubmissionRequirement", "Rule"), StrV("all"), true),
		Alt: []Check{CmpCheck("Rule == \"pick\"", token.EQL, FieldV("SubmissionRequirement", "Rule"), StrV("pick"), true)}})

	// equality
	ve := p.Func(pePkg, "", "vcEqual")
	marshalled := VPat{Desc: "string(json.Marshal(x))", M: func(v ssa.Value) bool {
		v = StripConv(v)
		return CallV(Fn("std:encoding/json", "", "Marshal"), 0).M(v)
	}}
	r.Gate(Gate{ID: "C12.equality-is-whole-content", Fn: ve, Effect: ReturnsBool(0, true), Check: CmpCheck("string(json(a)) == string(json(b))", token.EQL, marshalled, marshalled, true)})
}

func fieldIs(fa *ssa.FieldAddr, typ, field string) bool {
	t := fa.X.Type()
	if pt, ok := t.Underlying().(*types.Pointer); ok {
		t = pt.Elem()
	}
	st, ok := t.Underlying().(*types.Struct)
	if !ok || fa.Field >= st.NumFields() || st.Field(fa.Field).Name() != field {
		return false
	}
	n, ok := t.(*types.Named)
	return ok && n.Obj().Name() == typ
}

// TypeIsV matches values whose static type prints as one of the given strings.
func TypeIsV(names ...string) VPat {
	return VPat{Desc: "value of type " + strings.Join(names, "|"), M: func(v ssa.Value) bool {
		s := v.Type().String()
		for _, n := range names {
			if s == n {
				return true
			}
		}
		return false
	}}
}

// c12ReturnsPopulatedMap: a return whose first result is a map that is populated in this function (the final success return of Validate).
func c12ReturnsPopulatedMap() Effect {
	return InstrEffect("return the re-matched credential map", func(in ssa.Instruction) bool {
		ret, ok := in.(*ssa.Return)
		if !ok || len(ret.Results) == 0 {
			return false
		}
		mm, ok := Unspill(ret.Results[0]).(*ssa.MakeMap)
		if !ok {
			return false
		}
		for _, ref := range *mm.Referrers() {
			if _, ok := ref.(*ssa.MapUpdate); ok {
				return true
			}
		}
		return false
	})
}

// c12ExpectedMap: the map returned by Validate's final success is filled from the re-match result only:
// key = Mappings[i].Id, value = VerifiableCredentials[i] of Build's sign instruction, same index.
func c12ExpectedMap(r *Report, val *ssa.Function) {
	rule := "ARG: Validate returns the credentials selected by re-matching (signInstruction.VerifiableCredentials[i] keyed by Mappings[i].Id), not the submitted ones"
	key := "C12.validate.returns-rematched"
	if val == nil {
		r.Lost(key, rule, "Validate not found")
		return
	}
	n := 0
	for _, b := range val.Blocks {
		ret, ok := b.Instrs[len(b.Instrs)-1].(*ssa.Return)
		if !ok {
			continue
		}
		mm, ok := Unspill(ret.Results[0]).(*ssa.MakeMap)
		if !ok {
			if !IsNilConst(ret.Results[0]) {
				r.Bad(key, rule, r.P.Pos(ret.Pos()), "returns "+AccessPath(ret.Results[0], 0))
				return
			}
			continue
		}
		for _, ref := range *mm.Referrers() {
			mu, ok := ref.(*ssa.MapUpdate)
			if !ok {
				continue
			}
			n++
			k, v := AccessPath(mu.Key, 0), AccessPath(mu.Value, 0)
			kr, kf := indexedField(mu.Key, 0)
			vr, vf := indexedField(mu.Value, 0)
			if kr == nil || kr != vr || kf != "Mappings" || vf != "VerifiableCredentials" || !fieldPathEnds(mu.Key, "Id") || !allocHoldsResult(kr, Fn(pePkg, "PresentationSubmissionBuilder", "Build"), 1) {
				r.Bad(key, rule, r.P.Pos(mu.Pos()), "map entry "+k+" -> "+v+" is not Build's signInstruction.Mappings[i].Id -> signInstruction.VerifiableCredentials[i]")
				return
			}
			if !sameIndex(mu.Key, mu.Value) {
				r.Bad(key, rule, r.P.Pos(mu.Pos()), "key and value are not taken at the same index: "+k+" -> "+v)
				return
			}
		}
	}
	r.Sites += n
	if n == 0 {
		r.Lost(key, rule, "no populated map is returned")
		return
	}
	r.OK(key, rule, r.P.Pos(val.Pos()), fmt.Sprintf("%d map update(s) from the sign instruction, index-aligned", n), true)
}

// indexOf finds the IndexAddr index a value was loaded through (looking through loads, local copies and field selections).
func indexOf(v ssa.Value, depth int) ssa.Value {
	if depth > 8 {
		return nil
	}
	switch x := v.(type) {
	case *ssa.UnOp:
		if x.Op == token.MUL {
			if a, ok := x.X.(*ssa.Alloc); ok {
				// local copy: find the single store
				for _, ref := range *a.Referrers() {
					if st, ok := ref.(*ssa.Store); ok && st.Addr == ssa.Value(a) {
						return indexOf(st.Val, depth+1)
					}
				}
				return nil
			}
			return indexOf(x.X, depth+1)
		}
	case *ssa.FieldAddr:
		return indexOf(x.X, depth+1)
	case *ssa.Field:
		return indexOf(x.X, depth+1)
	case *ssa.Alloc:
		for _, ref := range *x.Referrers() {
			if st, ok := ref.(*ssa.Store); ok && st.Addr == ssa.Value(x) {
				return indexOf(st.Val, depth+1)
			}
		}
	case *ssa.IndexAddr:
		return x.Index
	}
	return nil
}

// indexedField: v is read through X.<field>[i] where X is a local; returns the local and the field name.
func indexedField(v ssa.Value, depth int) (ssa.Value, string) {
	if depth > 8 {
		return nil, ""
	}
	switch x := v.(type) {
	case *ssa.UnOp:
		if x.Op == token.MUL {
			if a, ok := x.X.(*ssa.Alloc); ok {
				for _, ref := range *a.Referrers() {
					if st, ok := ref.(*ssa.Store); ok && st.Addr == ssa.Value(a) {
						return indexedField(st.Val, depth+1)
					}
				}
				return nil, ""
			}
			return indexedField(x.X, depth+1)
		}
	case *ssa.FieldAddr:
		return indexedField(x.X, depth+1)
	case *ssa.Field:
		return indexedField(x.X, depth+1)
	case *ssa.Alloc:
		for _, ref := range *x.Referrers() {
			if st, ok := ref.(*ssa.Store); ok && st.Addr == ssa.Value(x) {
				return indexedField(st.Val, depth+1)
			}
		}
	case *ssa.IndexAddr:
		sl := x.X
		if ld, ok := sl.(*ssa.UnOp); ok && ld.Op == token.MUL {
			if fa, ok := ld.X.(*ssa.FieldAddr); ok {
				t := fa.X.Type()
				if pt, ok := t.Underlying().(*types.Pointer); ok {
					t = pt.Elem()
				}
				if st, ok := t.Underlying().(*types.Struct); ok {
					return rootAlloc(fa.X, 0), st.Field(fa.Field).Name()
				}
			}
		}
	}
	return nil, ""
}

func fieldPathEnds(v ssa.Value, name string) bool { return FieldPathEnds(v, name) }

// allocHoldsResult: the only store into the local is result #idx of a call matching c.
func allocHoldsResult(a ssa.Value, c Callee, idx int) bool {
	al, ok := a.(*ssa.Alloc)
	if !ok {
		return false
	}
	n := 0
	good := false
	for _, ref := range *al.Referrers() {
		if st, ok := ref.(*ssa.Store); ok && st.Addr == ssa.Value(al) {
			n++
			good = CallV(c, idx).M(st.Val)
		}
	}
	return n == 1 && good
}

func sameIndex(a, b ssa.Value) bool {
	ia, ib := indexOf(a, 0), indexOf(b, 0)
	return ia != nil && ia == ib
}

// c12ClaimValuesFromMatch: ResolveConstraintsFields copies exactly the values map returned by matchConstraint.
func c12ClaimValuesFromMatch(r *Report, fn *ssa.Function) {
	rule := "ARG: the claim values written by ResolveConstraintsFields are the entries of matchConstraint's value map (ranged key/value), nothing else"
	key := "C12.claims.values-are-matched-values"
	if fn == nil {
		r.Lost(key, rule, "function not found")
		return
	}
	n := 0
	for _, b := range fn.Blocks {
		for _, in := range b.Instrs {
			mu, ok := in.(*ssa.MapUpdate)
			if !ok {
				continue
			}
			n++
			okK, okV := false, false
			for i, v := range []ssa.Value{mu.Key, mu.Value} {
				if ex, ok := v.(*ssa.Extract); ok {
					if nx, ok := ex.Tuple.(*ssa.Next); ok {
						if rg, ok := nx.Iter.(*ssa.Range); ok && CallV(Fn(pePkg, "", "matchConstraint"), 1).M(rg.X) {
							if i == 0 {
								okK = ex.Index == 1
							} else {
								okV = ex.Index == 2
							}
						}
					}
				}
			}
			if !okK || !okV {
				r.Bad(key, rule, r.P.Pos(mu.Pos()), "entry "+AccessPath(mu.Key, 0)+" -> "+AccessPath(mu.Value, 0))
				return
			}
		}
	}
	r.Sites += n
	if n == 0 {
		r.Lost(key, rule, "no map update")
		return
	}
	r.OK(key, rule, r.P.Pos(fn.Pos()), fmt.Sprintf("%d update(s)", n), true)
}

// c12BuildSelection: in Build the selection (selectedVCs / mappings / holder) is taken only from a wallet whose Match
// returned no error, and the three come from the same iteration.
func c12BuildSelection(r *Report, bd *ssa.Function) {
	rule := "GATE: Build selects credentials, mappings and holder only from a wallet whose Match succeeded, and stops at the first"
	key := "C12.wallet.build.selection-from-successful-match"
	if bd == nil {
		r.Lost(key, rule, "Build not found")
		return
	}
	calls := Calls(bd, Fn(pePkg, "PresentationDefinition", "Match"))
	r.Sites += len(calls)
	if len(calls) != 1 {
		r.Bad(key, rule, r.P.Pos(bd.Pos()), fmt.Sprintf("%d Match calls", len(calls)))
		return
	}
	call := calls[0].(*ssa.Call)
	// the err == nil edge must leave the loop; the other edge must stay in it
	var errEx *ssa.Extract
	for _, ref := range *call.Referrers() {
		if ex, ok := ref.(*ssa.Extract); ok && ex.Index == 2 {
			errEx = ex
		}
	}
	loop := InnermostLoop(Loops(bd), call.Block())
	if errEx == nil || loop == nil {
		r.Bad(key, rule, r.P.Pos(call.Pos()), "Match's error is discarded or Match is not called in the loop over wallets")
		return
	}
	// uses of result #0 / #1 must be dominated by the err==nil edge: check that every referrer of those extracts
	// (phis at the loop exit) sits in a block only reachable from the loop through the success edge.
	g := Gate{Fn: bd, Check: ErrCheck(Fn(pePkg, "PresentationDefinition", "Match")), Effect: InstrEffect("use of Match's selection", func(in ssa.Instruction) bool {
		ops := in.Operands(nil)
		for _, op := range ops {
			if op == nil || *op == nil {
				continue
			}
			if ex, ok := (*op).(*ssa.Extract); ok && ex.Tuple == ssa.Value(call) && ex.Index < 2 {
				if _, isPhi := in.(*ssa.Phi); isPhi {
					continue // phi selection is examined through its uses below
				}
				return true
			}
		}
		return false
	})}
	res := r.P.RunGate(&g)
	if len(res.Violations) > 0 {
		r.Bad(key, rule, r.P.Pos(call.Pos()), strings.Join(res.Violations, " || "))
		return
	}
	// the success edge leaves the loop
	leaves := false
	for _, ref := range *errEx.Referrers() {
		if bin, ok := ref.(*ssa.BinOp); ok {
			for _, u := range *bin.Referrers() {
				if iff, ok := u.(*ssa.If); ok {
					blk := iff.Block()
					// err == nil true -> Succs[0]; err != nil -> success is Succs[1]
					succ := blk.Succs[0]
					if bin.Op == token.NEQ {
						succ = blk.Succs[1]
					}
					// follow the success branch: it must reach a block outside the loop without re-entering the header
					seen := map[*ssa.BasicBlock]bool{}
					cur := succ
					for cur != nil && !seen[cur] {
						seen[cur] = true
						if !loop.Body[cur] {
							leaves = true
							break
						}
						if cur == loop.Header || len(cur.Succs) != 1 {
							break
						}
						cur = cur.Succs[0]
					}
				}
			}
		}
	}
	if !leaves {
		r.Bad(key, rule, r.P.Pos(call.Pos()), "the successful-match branch does not leave the loop over wallets (a later wallet could override the selection)")
		return
	}
	r.OK(key, rule, r.P.Pos(call.Pos()), "selection used only behind Match err == nil; success leaves the loop", true)
}

// c12Pairing: descriptor k gets path index k (a counter advanced with every append) and is built from the same
// candidate as the k-th returned credential.
func c12Pairing(r *Report, fn *ssa.Function, viaEqual bool) {
	rule := "ORDER: the mapping appended k-th carries path index k (counter advanced together with the append), its descriptor id and its credential come from the same candidate, and there is one append per element of the returned credential slice"
	if fn == nil {
		r.Lost("C12.wallet.mapping-pairing", rule, "function not found")
		return
	}
	key := "C12.wallet.mapping-pairing @ " + r.P.FuncName(fn)
	pos := r.P.Pos(fn.Pos())
	// the Sprintf producing the path
	var sp *ssa.Call
	for _, c := range Calls(fn, Fn("std:fmt", "", "Sprintf")) {
		if s, ok := ConstString(c.Common().Args[0]); ok && strings.Contains(s, "verifiableCredential[") {
			if sp != nil {
				r.Bad(key, rule, pos, "more than one path construction")
				return
			}
			sp = c.(*ssa.Call)
		}
	}
	if sp == nil {
		r.Lost(key, rule, "path construction ($.verifiableCredential[%d]) not found")
		return
	}
	r.Sites++
	els := VariadicElems(sp)
	if len(els) != 1 {
		r.Bad(key, rule, r.P.Pos(sp.Pos()), "path has not exactly one index argument")
		return
	}
	idx := StripConv(els[0])
	if mi, ok := idx.(*ssa.MakeInterface); ok {
		idx = mi.X
	}
	blk := sp.Block()
	// append of the mapping in the same block
	var app *ssa.Call
	for _, in := range blk.Instrs {
		if c, ok := in.(*ssa.Call); ok {
			if b, ok := c.Call.Value.(*ssa.Builtin); ok && b.Name() == "append" && strings.Contains(c.Type().String(), "InputDescriptorMappingObject") {
				app = c
			}
		}
	}
	if app == nil {
		r.Bad(key, rule, r.P.Pos(sp.Pos()), "the mapping is not appended in the block that builds its path")
		return
	}
	// idx is either len(descriptors) or a counter phi {0, idx+1} whose increment is in this block
	okCounter := false
	if LenV(AnyV()).M(idx) {
		if c := idx.(*ssa.Call); StripConv(c.Call.Args[0]) == StripConv(app.Call.Args[0]) {
			okCounter = true
		}
	}
	if phi, ok := idx.(*ssa.Phi); ok {
		okCounter = true
		incs := 0
		for _, e := range phi.Edges {
			if c, isC := ConstInt(e); isC {
				if c != 0 {
					okCounter = false
				}
				continue
			}
			if e == ssa.Value(phi) {
				continue
			}
			bin, isBin := e.(*ssa.BinOp)
			one, isOne := ConstInt(binY(bin))
			if !isBin || bin.Op != token.ADD || bin.X != ssa.Value(phi) || !isOne || one != 1 || bin.Block() != blk {
				okCounter = false
				continue
			}
			incs++
		}
		if incs == 0 {
			okCounter = false
		}
	}
	// third form: the path index is the range index of the loop, and the same block appends the same candidate's credential to
	// the returned slice — both slices start empty before the loop and grow by one per iteration, so position k of one is
	// position k of the other
	rangeIdxForm := false
	if bin, isBin := idx.(*ssa.BinOp); isBin && bin.Op == token.ADD {
		if phi, isPhi := bin.X.(*ssa.Phi); isPhi {
			one, isOne := ConstInt(bin.Y)
			startsBefore := false
			for _, e := range phi.Edges {
				if c, isC := ConstInt(e); isC && c == -1 {
					startsBefore = true
				}
			}
			if isOne && one == 1 && startsBefore {
				var vcApp *ssa.Call
				for _, in := range blk.Instrs {
					if c, ok := in.(*ssa.Call); ok {
						if b, ok := c.Call.Value.(*ssa.Builtin); ok && b.Name() == "append" && strings.Contains(c.Type().String(), "VerifiableCredential") {
							vcApp = c
						}
					}
				}
				emptyStart := func(c *ssa.Call) bool {
					ph, ok := StripConv(c.Call.Args[0]).(*ssa.Phi)
					if !ok {
						return false
					}
					for _, e := range ph.Edges {
						if IsNilConst(e) {
							return true
						}
					}
					return false
				}
				if vcApp != nil && emptyStart(vcApp) && emptyStart(app) {
					idRoot := storedFieldRoot(blk, "InputDescriptorMappingObject", "Id")
					for _, in := range blk.Instrs {
						if st, isSt := in.(*ssa.Store); isSt && idRoot != nil && rootAlloc(st.Val, 0) == idRoot && strings.Contains(AccessPath(st.Val, 0), "VC") {
							if _, isIA := st.Addr.(*ssa.IndexAddr); isIA {
								rangeIdxForm = true
							}
						}
					}
				}
			}
		}
	}
	if rangeIdxForm {
		r.OK(key, rule, r.P.Pos(sp.Pos()), "path index is the range index; the block appends the mapping and the same candidate's credential, both slices start empty", true)
		return
	}
	if !okCounter {
		r.Bad(key, rule, r.P.Pos(sp.Pos()), "the path index "+AccessPath(idx, 0)+" is not a counter that starts at 0 and advances by one in the block that appends the mapping")
		return
	}
	// one append per outer iteration: the block's only successor is a loop header
	loops := Loops(fn)
	if len(blk.Succs) != 1 {
		r.Bad(key, rule, r.P.Pos(app.Pos()), "the appending block does not continue with the next element")
		return
	}
	var outer *Loop
	for _, l := range loops {
		if l.Header == blk.Succs[0] {
			outer = l
		}
	}
	if outer == nil {
		r.Bad(key, rule, r.P.Pos(app.Pos()), "after appending, control does not go to a loop header (more than one mapping per element possible)")
		return
	}
	// the returned credential slice (result #1)
	var retVCs ssa.Value
	for _, b := range fn.Blocks {
		if ret, ok := b.Instrs[len(b.Instrs)-1].(*ssa.Return); ok && len(ret.Results) == 3 && !IsNilConst(ret.Results[1]) {
			retVCs = Unspill(ret.Results[1])
		}
	}
	if retVCs == nil {
		r.Lost(key, rule, "returned credential slice not found")
		return
	}
	// candidate root of the descriptor id
	idRoot := storedFieldRoot(blk, "InputDescriptorMappingObject", "Id")
	if idRoot == nil {
		r.Bad(key, rule, r.P.Pos(app.Pos()), "the mapping's Id is not read from a candidate")
		return
	}
	if viaEqual {
		// outer loop ranges over the returned slice; the block is entered only via vcEqual(elem, *candidate.VC) true with the same candidate
		if !rangesOver(outer, retVCs) {
			r.Bad(key, rule, r.P.Pos(app.Pos()), "the loop that appends mappings does not range over the returned credential slice")
			return
		}
		g := Gate{Fn: fn, Effect: InstrEffect("append mapping", func(in ssa.Instruction) bool { return in == ssa.Instruction(app) }), Check: Check{Desc: "vcEqual(element, *candidate.VC)", Call: ptr(Fn(pePkg, "", "vcEqual")), Result: -1, Pass: IsTrue,
			ArgOK: func(ci ssa.CallInstruction) string {
				a0, a1 := ci.Common().Args[0], ci.Common().Args[1]
				if rootAlloc(a1, 0) != idRoot && rootAlloc(a0, 0) != idRoot {
					return "vcEqual does not compare the credential of the candidate that supplies the descriptor id"
				}
				return ""
			}}}
		res := r.P.RunGate(&g)
		if len(res.Violations) > 0 || res.CheckSites == 0 {
			r.Bad(key, rule, r.P.Pos(app.Pos()), "mapping appended without vcEqual(element, candidate credential): "+strings.Join(res.Violations, " || "))
			return
		}
	} else {
		// the block stores candidate.VC into returned[rangeindex]
		ok := false
		for _, in := range blk.Instrs {
			st, isSt := in.(*ssa.Store)
			if !isSt {
				continue
			}
			ia, isIA := st.Addr.(*ssa.IndexAddr)
			if !isIA || StripConv(ia.X) != StripConv(retVCs) {
				continue
			}
			if rootAlloc(st.Val, 0) == idRoot && strings.Contains(AccessPath(st.Val, 0), "VC") {
				ok = true
			}
		}
		if !ok {
			r.Bad(key, rule, r.P.Pos(app.Pos()), "the block does not store the same candidate's credential into the returned slice")
			return
		}
	}
	r.OK(key, rule, r.P.Pos(sp.Pos()), "path index is the append counter; id and credential from one candidate; one mapping per returned credential", true)
}

func binY(b *ssa.BinOp) ssa.Value {
	if b == nil {
		return nil
	}
	return b.Y
}

// storedFieldRoot: in blk, the value stored into field `field` of a local of type typ; returns the local (Alloc) it was read from.
func storedFieldRoot(blk *ssa.BasicBlock, typ, field string) ssa.Value {
	for _, in := range blk.Instrs {
		st, ok := in.(*ssa.Store)
		if !ok {
			continue
		}
		fa, ok := st.Addr.(*ssa.FieldAddr)
		if !ok || !fieldIs(fa, typ, field) {
			continue
		}
		return rootAlloc(st.Val, 0)
	}
	return nil
}

// rootAlloc follows loads and field selections down to the local variable they start from.
func rootAlloc(v ssa.Value, depth int) ssa.Value {
	if depth > 10 {
		return nil
	}
	switch x := v.(type) {
	case *ssa.UnOp:
		if x.Op == token.MUL {
			return rootAlloc(x.X, depth+1)
		}
	case *ssa.FieldAddr:
		return rootAlloc(x.X, depth+1)
	case *ssa.Field:
		return rootAlloc(x.X, depth+1)
	case *ssa.Alloc:
		return x
	}
	return nil
}

// rangesOver: the loop's bound is len(slice) or the loop indexes slice with its range index.
func rangesOver(l *Loop, slice ssa.Value) bool {
	for b := range l.Body {
		for _, in := range b.Instrs {
			if ia, ok := in.(*ssa.IndexAddr); ok && StripConv(ia.X) == StripConv(slice) {
				if bin, ok := ia.Index.(*ssa.BinOp); ok && bin.Block() == l.Header {
					return true
				}
			}
		}
	}
	return false
}

// c12Apply: the generic rule application refuses short selections.
func c12Apply(r *Report) {
	p := r.P
	fn := p.Func(pePkg, "", "apply")
	if fn == nil || len(fn.Blocks) == 0 {
		r.Lost("C12.wallet.rules", "GATE", "generic function apply has no body in the SSA program")
		return
	}
	cnt := TypeIsV("int")
	r.Gate(Gate{ID: "C12.wallet.rules.all-needs-every-member", Fn: fn, Effect: SuccessReturn(), Check: CmpCheck("selectableCount == len(list)", token.EQL, cnt, LenV(AnyV()), true),
		Alt: []Check{CmpCheck("Rule == \"all\" is false", token.EQL, FieldV("SubmissionRequirement", "Rule"), StrV("all"), false)}})
	r.Gate(Gate{ID: "C12.wallet.rules.count-needs-enough", Fn: fn, Effect: SuccessReturn(), Check: CmpCheck("selectableCount < *Count is false", token.LSS, cnt, PathV("Count"), false),
		Alt: []Check{CmpCheck("Count == nil", token.EQL, FieldV("SubmissionRequirement", "Count"), NilV(), true), CmpCheck("Rule == \"all\"", token.EQL, FieldV("SubmissionRequirement", "Rule"), StrV("all"), true)}})
	r.Gate(Gate{ID: "C12.wallet.rules.min-needs-enough", Fn: fn, Effect: SuccessReturn(), Check: CmpCheck("selectableCount < *Min is false", token.LSS, cnt, PathV("Min"), false),
		Alt: []Check{CmpCheck("Min == nil", token.EQL, FieldV("SubmissionRequirement", "Min"), NilV(), true), CmpCheck("Count == nil is false", token.EQL, FieldV("SubmissionRequirement", "Count"), NilV(), false), CmpCheck("Rule == \"all\"", token.EQL, FieldV("SubmissionRequirement", "Rule"), StrV("all"), true)}})
}

// c12MatchedValue: when a filter is present, the value matchField reports is the value matchFilter matched (the regex
// capture), not the raw value at the path.
func c12MatchedValue(r *Report, fn *ssa.Function) {
	rule := "ARG: a return of matchField that follows a successful matchFilter hands out matchFilter's matched value (result #1)"
	key := "C12.claims.value-is-the-filters-match"
	if fn == nil {
		r.Lost(key, rule, "matchField not found")
		return
	}
	calls := Calls(fn, Fn(pePkg, "", "matchFilter"))
	if len(calls) != 1 {
		r.Lost(key, rule, fmt.Sprintf("%d matchFilter calls", len(calls)))
		return
	}
	call := calls[0].(*ssa.Call)
	n := 0
	for _, b := range fn.Blocks {
		ret, ok := b.Instrs[len(b.Instrs)-1].(*ssa.Return)
		if !ok || len(ret.Results) != 3 {
			continue
		}
		if t, isB := ConstBool(ret.Results[0]); !isB || !t {
			continue
		}
		// is this return behind `match == true`?
		if !FactHoldsValue(b, func(v ssa.Value) bool {
			ex, ok := v.(*ssa.Extract)
			return ok && ex.Tuple == ssa.Value(call) && ex.Index == 0
		}, true) {
			continue
		}
		n++
		ex, ok := ret.Results[1].(*ssa.Extract)
		if !ok || ex.Tuple != ssa.Value(call) || ex.Index != 1 {
			r.Bad(key, rule, r.P.Pos(ret.Pos()), "the value returned after a filter match is "+AccessPath(ret.Results[1], 0))
			return
		}
	}
	r.Sites += n
	if n == 0 {
		r.Lost(key, rule, "no return behind a successful matchFilter found")
		return
	}
	r.OK(key, rule, r.P.Pos(call.Pos()), fmt.Sprintf("%d return(s)", n), true)
}

func c12FreshConstraints(r *Report) {
	p := r.P
	rule := "ARG: the constraints handed to matchConstraint in ResolveConstraintsFields were looked up in the current iteration over the credential map (not carried over from an earlier iteration)"
	fn := p.Func("vcr/pe", "PresentationDefinition", "ResolveConstraintsFields")
	if fn == nil {
		r.Lost("C12.claims.constraints-of-this-descriptor", rule, "function not found")
		return
	}
	key := "C12.claims.constraints-of-this-descriptor @ " + p.FuncName(fn)
	calls := p.CallsNear(fn, Fn("vcr/pe", "", "matchConstraint"))
	r.Sites += len(calls)
	if len(calls) == 0 {
		r.Lost(key, rule, "no matchConstraint call")
		return
	}
	for _, c := range calls {
		if carried, why := LoopCarried(CallArg(c.Common(), 0), c.Block()); carried {
			r.Bad(key, rule, p.Pos(c.Pos()), "argument 0 ("+AccessPath(CallArg(c.Common(), 0), 0)+") can be left over from an earlier iteration: "+why)
			return
		}
	}
	r.OK(key, rule, p.Pos(fn.Pos()), fmt.Sprintf("%d call(s)", len(calls)), true)
}

// c12WalletOrder: the selected candidates are put into wallet order (sortCandidatesByCredential) before the descriptor
// paths are assigned — the first-match selection the verifier repeats is a fixed point only for that order (fix: the
// verifier rejected the wallet's own correct submission, depending on the storage order of the wallet).
func c12WalletOrder(r *Report, fns ...*ssa.Function) {
	rule := "ORDER: sortCandidatesByCredential(selected) is called on every path before the descriptor-map paths ($.verifiableCredential[k]) are built"
	for _, fn := range fns {
		if fn == nil {
			r.Lost("C12.wallet.selection-in-wallet-order", rule, "function not found")
			continue
		}
		key := "C12.wallet.selection-in-wallet-order @ " + r.P.FuncName(fn)
		sorts := Calls(fn, Fn(pePkg, "", "sortCandidatesByCredential"))
		var paths []ssa.CallInstruction
		for _, c := range Calls(fn, Fn("std:fmt", "", "Sprintf")) {
			if s, ok := ConstString(c.Common().Args[0]); ok && strings.Contains(s, "verifiableCredential[") {
				paths = append(paths, c)
			}
		}
		r.Sites += len(sorts) + len(paths)
		if len(paths) == 0 {
			r.Lost(key, rule, "path construction not found")
			continue
		}
		ok := len(sorts) > 0
		for _, pth := range paths {
			dominated := false
			for _, s := range sorts {
				if InstrDominates(s, pth) {
					dominated = true
				}
			}
			if !dominated {
				ok = false
			}
		}
		if !ok {
			r.Bad(key, rule, r.P.Pos(paths[0].Pos()), "the paths are assigned without a dominating sortCandidatesByCredential call: the order of the returned credentials is not the wallet order")
			continue
		}
		r.OK(key, rule, r.P.Pos(fn.Pos()), fmt.Sprintf("%d sort call(s) dominate %d path construction(s)", len(sorts), len(paths)), true)
	}
	// the sort key is the position in the matched list, recorded where the candidate's credential is chosen
	mc := r.P.Func(pePkg, "PresentationDefinition", "matchConstraints")
	r.FieldStoredIs("C12.wallet.candidate-index-is-wallet-position", mc, "Candidate", "vcIndex", VPat{Desc: "the range index over the wallet's credentials", M: func(v ssa.Value) bool {
		bin, ok := v.(*ssa.BinOp)
		if !ok || bin.Op != token.ADD {
			return false
		}
		_, isPhi := bin.X.(*ssa.Phi)
		one, isOne := ConstInt(bin.Y)
		return isPhi && isOne && one == 1
	}}, 1)
}

// c12WholeValueWithoutCapture: without a capture group the claim is the credential's whole string value, not the fragment the
// (unanchored) expression consumed.
func c12WholeValueWithoutCapture(r *Report) {
	p := r.P
	rule := "ARG: in matchFilter no value derived from Match.Capture is returned (without capture group the whole field value is the claim)"
	key := "C12.claims.pattern-without-group-yields-whole-value"
	var fn *ssa.Function
	for _, f := range []*ssa.Function{p.Func(pePkg, "", "matchPattern"), p.Func(pePkg, "", "matchFilter")} {
		if f != nil && len(Calls(f, Fn("github.com/dlclark/regexp2", "Regexp", "FindStringMatch"))) > 0 {
			fn = f
		}
	}
	if fn == nil {
		r.Lost(key, rule, "the function that runs the pattern (FindStringMatch) was not found")
		return
	}
	key += " @ " + p.FuncName(fn)
	n := 0
	for _, f := range WithAnons(fn) {
		for _, ci := range Calls(f, AnyOf(Fn("github.com/dlclark/regexp2", "Capture", "Runes"), Fn("github.com/dlclark/regexp2", "Capture", "String"))) {
			// the receiver is the Capture embedded (through Group) in the *Match itself — not one of match.Groups()[i]
			v := CallArg(ci.Common(), -1)
			for d := 0; d < 4; d++ {
				fa, ok := v.(*ssa.FieldAddr)
				if !ok {
					break
				}
				v = fa.X
			}
			if pt, ok := v.Type().Underlying().(*types.Pointer); ok {
				if nm, isN := pt.Elem().(*types.Named); isN && nm.Obj().Name() == "Match" {
					n++
				}
			}
		}
	}
	r.Sites++
	if n > 0 {
		r.Bad(key, rule, p.Pos(fn.Pos()), fmt.Sprintf("%d read(s) of the match-level Capture (the matched fragment): it must not become the claim value", n))
		return
	}
	r.OK(key, rule, p.Pos(fn.Pos()), "no read of the match-level Capture", true)
}
