package props

import (
	"fmt"
	"go/token"
	"go/types"
	"strings"

	"golang.org/x/tools/go/ssa"

	. "verifcheck/an"
)

func init() { Registry["C15"] = c15 }

func c15(r *Report) {
	defer c15Seed8(r)
	defer c15Seed7(r)
	defer c15Seed5(r)
	defer c15Audit4(r)
	p := r.P
	const v2 = "network/transport/v2"
	const dag = "network/dag"
	r.Explanation = "Static decision of the structural conditions for confidentiality of private transaction payloads: (1) payload bytes enter an outgoing protocol message in exactly two places — the TransactionPayload response (Data) and the Transaction entries of a list (Payload) — every other message literal carries no payload; (2) in the payload-query handler the payload is read, for a transaction with a participant list, only through peer.Authenticated, successful PAL decryption with a non-nil result, and pal.Contains(peer.NodeDID); in the list collector the payload is read only when the transaction has no participant list; (3) a received payload is stored only for a transaction already in the DAG and only if it hashes to that transaction's payload hash; the DAG's own payload writers are hash-gated (State.Add) or owned (WritePayload from the handler); (4) Peer.Authenticated is set to true only by the two authenticators; the TLS authenticator succeeds only via a presented certificate, NutsComm service resolution and host-name verification; the connection manager marks a peer authenticated only through Authenticator.Authenticate; the dummy authenticator is constructed only on the no-TLS branch; retries query only authenticated connections of listed participants."
	r.NotDecided = []string{"TLS/PKI semantics and certificate validation by the gRPC layer", "correctness of PAL encryption (ECIES)"}

	// (1) carriers
	c15Carriers(r)
	// (2) query gates
	q := p.Func(v2, "protocol", "handleTransactionPayloadQuery")
	read := CallEffect(Fn(dag, "State", "ReadPayload"))
	public := CmpCheck("len(tx.PAL()) > 0 is false (public transaction)", token.LEQ, LenV(CallV(Fn(dag, "Transaction", "PAL"), -1)), IntV(0), true)
	r.Gate(Gate{ID: "C15.query.authenticated", Fn: q, Effect: read, Check: Check{Desc: "peer.Authenticated", Pass: IsTrue, Values: fieldLoads("Peer", "Authenticated")}, Alt: []Check{public}})
	r.Gate(Gate{ID: "C15.query.pal-decrypted", Fn: q, Effect: read, Check: ErrCheck(Fn(v2, "protocol", "decryptPAL")), Alt: []Check{public}})
	r.Gate(Gate{ID: "C15.query.pal-for-us", Fn: q, Effect: read, Check: CallCheck(Fn(v2, "protocol", "decryptPAL"), 0, NonNil), Alt: []Check{public}})
	r.Gate(Gate{ID: "C15.query.peer-on-list", Fn: q, Effect: read, Check: CallCheck(Fn(dag, "PAL", "Contains"), -1, IsTrue), Alt: []Check{public}})
	r.Gate(Gate{ID: "C15.query.tx-known", Fn: q, Effect: read, Check: ErrCheck(Fn(dag, "State", "GetTransaction"))})
	c15QueryArgs(r, q)
	c15PALFromThisHeader(r)
	// the answer (which may carry the payload) goes out over the connection the query arrived on — the one whose peer was
	// just checked — not over a connection looked up by the (self-asserted) peer id
	r.ArgIsAll("C15.query.answer-over-the-checked-connection", q, p.FnOrImpl("network/transport/grpc", "Connection", "Send"), -1, ParamV("connection"), 1)
	cl := p.Func(v2, "protocol", "collectTransactionList")
	r.Gate(Gate{ID: "C15.list.public-only", Fn: cl, Effect: CallEffect(Fn(dag, "State", "ReadPayload")), Check: CmpCheck("len(transaction.PAL()) == 0", token.EQL, LenV(CallV(Fn(dag, "Transaction", "PAL"), -1)), IntV(0), true)})
	r.Own(OwnSpec{ID: "C15.own.read-payload", Op: "call State.ReadPayload", Sites: p.CallSites(p.FnOrImpl(dag, "State", "ReadPayload"), true), Min: 3, Owners: map[string]string{
		"(*network/transport/v2.protocol).handleTransactionPayloadQuery": "gated by authentication + PAL membership",
		"(*network/transport/v2.protocol).collectTransactionList":        "public transactions only",
		"(*network.Network).GetTransactionPayload":                       "internal REST API of the operator",
		"(*network.Network).Reprocess":                                   "local re-delivery to subscribers",
		"(*network.Network).Reprocess$1":                                 "local re-delivery to subscribers",
	}})
	// (3) storing received payloads
	hp := p.Func(v2, "protocol", "handleTransactionPayload")
	wr := CallEffect(Fn(dag, "State", "WritePayload"))
	r.Gate(Gate{ID: "C15.store.tx-known", Fn: hp, Effect: wr, Check: ErrCheck(Fn(dag, "State", "GetTransaction"))})
	r.Gate(Gate{ID: "C15.store.hash-matches", Fn: hp, Effect: wr, Check: CallCheck(Fn("crypto/hash", "SHA256Hash", "Equals"), -1, IsTrue)})
	c15StoreArgs(r, hp)
	r.Own(OwnSpec{ID: "C15.own.write-payload", Op: "call State.WritePayload", Sites: p.CallSites(p.FnOrImpl(dag, "State", "WritePayload"), true), Min: 1, Owners: map[string]string{
		"(*network/transport/v2.protocol).handleTransactionPayload": "after the hash comparison",
	}})
	r.Own(OwnSpec{ID: "C15.own.payloadstore-write", Op: "call PayloadStore.writePayload", Sites: p.CallSites(p.FnOrImpl(dag, "PayloadStore", "writePayload"), true), Min: 2, Owners: map[string]string{
		"(*network/dag.state).Add":          "hash-gated in the write closure (C06.add.payload-hash)",
		"(*network/dag.state).WritePayload": "called only from the hash-checking handler",
	}})
	// every writePayload in state.Add is behind the hash comparison (also C06)
	addCl := one(anonCalling(p.Func(dag, "state", "Add"), Fn(dag, "dag", "add")))
	r.Gate(Gate{ID: "C15.store.add-hash-gated", Fn: addCl, Effect: CallEffect(Fn(dag, "PayloadStore", "writePayload")), Check: CallCheck(Fn("crypto/hash", "SHA256Hash", "Equals"), -1, IsTrue)})
	c15AddSinglePayloadWriter(r)

	// (4) authentication flag
	r.Own(OwnSpec{ID: "C15.own.authenticated-true", Op: "store Peer.Authenticated = true", Sites: trueStores(p, "network/transport", "Peer", "Authenticated"), Min: 2, Owners: map[string]string{
		"(network/transport/grpc.tlsAuthenticator).Authenticate":   "after certificate/host-name verification",
		"(network/transport/grpc.dummyAuthenticator).Authenticate": "no-TLS development mode only (refused in strict mode, C20)",
	}})
	ta := p.Func("network/transport/grpc", "tlsAuthenticator", "Authenticate")
	authTrue := InstrEffect("peer.Authenticated = true", func(in ssa.Instruction) bool {
		st, ok := in.(*ssa.Store)
		if !ok {
			return false
		}
		b, isB := ConstBool(st.Val)
		return isB && b && FieldPathEnds(&ssa.UnOp{Op: token.MUL, X: st.Addr}, "Authenticated")
	})
	r.Gate(Gate{ID: "C15.tls.certificate-present", Fn: ta, Effect: authTrue, Check: CmpCheck("peer.Certificate == nil is false", token.EQL, FieldV("Peer", "Certificate"), NilV(), false)})
	r.Gate(Gate{ID: "C15.tls.nutscomm-resolved", Fn: ta, Effect: authTrue, Check: ErrCheck(Fn("vdr/resolver", "ServiceResolver", "Resolve"))})
	r.Gate(Gate{ID: "C15.tls.hostname-verified", Fn: ta, Effect: authTrue, Check: ErrCheck(Fn("std:crypto/x509", "Certificate", "VerifyHostname"))})
	c15ServiceOfClaimedDID(r, ta)
	// connection manager: an authenticated peer value comes only from Authenticator.Authenticate
	cm := p.Func("network/transport/grpc", "grpcConnectionManager", "authenticate")
	r.Gate(Gate{ID: "C15.cm.auth-error-refuses", Fn: cm, Effect: SuccessReturn(), Check: ErrCheck(Fn("network/transport/grpc", "Authenticator", "Authenticate")),
		Alt: []Check{CallCheck(Fn("github.com/nuts-foundation/go-did/did", "DID", "Empty"), -1, IsTrue)}})
	r.Own(OwnSpec{ID: "C15.own.dummy-authenticator", Op: "call NewDummyAuthenticator", Sites: p.CallSites(Fn("network/transport/grpc", "", "NewDummyAuthenticator"), true), Min: 1, Owners: map[string]string{
		"(*network.Network).Configure": "no-TLS branch",
	}})
	nc := p.Func("network", "Network", "Configure")
	r.Gate(Gate{ID: "C15.dummy-only-without-tls", Fn: nc, Effect: CallEffect(Fn("network/transport/grpc", "", "NewDummyAuthenticator")), Check: CallCheck(Fn("core", "TLSConfig", "Enabled"), -1, IsFalse)})
	// retries go to authenticated connections of listed participants only
	c15RetryPredicates(r)
}

func fieldLoads(typ, field string) func(fn *ssa.Function) []ssa.Value {
	return func(fn *ssa.Function) []ssa.Value {
		var out []ssa.Value
		for _, b := range fn.Blocks {
			for _, in := range b.Instrs {
				switch x := in.(type) {
				case *ssa.UnOp:
					if x.Op == token.MUL && FieldV(typ, field).M(x) {
						out = append(out, x)
					}
				case *ssa.Field:
					if FieldV(typ, field).M(x) {
						out = append(out, x)
					}
				}
			}
		}
		return out
	}
}

func trueStores(p *Prog, pkg, typ, field string) []Site {
	var out []Site
	for _, s := range p.FieldStores(pkg, typ, field) {
		st := s.Instr.(*ssa.Store)
		if b, ok := ConstBool(st.Val); ok && !b {
			continue
		}
		out = append(out, s)
	}
	return out
}

// c15Carriers: composite literals of v2 message types that carry payload bytes.
func c15Carriers(r *Report) {
	p := r.P
	rule := "OWN: payload bytes are put into an outgoing message only as TransactionPayload.Data (payload query response) and Transaction.Payload (transaction list of public transactions)"
	type carrier struct{ typ, field string }
	owners := map[carrier]string{
		{"TransactionPayload", "Data"}: "(*network/transport/v2.protocol).handleTransactionPayloadQuery",
		{"Transaction", "Payload"}:     "(*network/transport/v2.protocol).collectTransactionList",
	}
	found := map[carrier]int{}
	bad := 0
	p.EachInstr(func(fn *ssa.Function, in ssa.Instruction) {
		st, ok := in.(*ssa.Store)
		if !ok {
			return
		}
		fa, ok := st.Addr.(*ssa.FieldAddr)
		if !ok {
			return
		}
		n := NamedOf(fa.X.Type())
		if n == nil || n.Obj().Pkg() == nil || n.Obj().Pkg().Path() != ModPath+"/network/transport/v2" {
			return
		}
		stt, _ := n.Underlying().(*types.Struct)
		if stt == nil {
			return
		}
		fname := stt.Field(fa.Field).Name()
		c := carrier{n.Obj().Name(), fname}
		want, isCarrier := owners[c]
		if !isCarrier {
			return
		}
		cls := p.FileClass(p.FuncPos(fn))
		if cls != "prod" {
			return // generated protobuf code (unmarshalling, Reset) and test helpers
		}
		found[c]++
		if p.FuncName(Outer(fn)) != want {
			bad++
			r.Bad("C15.carriers @ "+p.FuncName(Outer(fn)), rule, p.Pos(st.Pos()), fmt.Sprintf("%s.%s is filled outside %s", c.typ, c.field, want))
		}
	})
	r.Sites += found[carrier{"TransactionPayload", "Data"}] + found[carrier{"Transaction", "Payload"}]
	if found[carrier{"TransactionPayload", "Data"}] == 0 || found[carrier{"Transaction", "Payload"}] == 0 {
		r.Lost("C15.carriers", rule, fmt.Sprintf("carrier stores found: %v", found))
		return
	}
	// every other bytes-typed field of an outgoing message literal must not be fed from ReadPayload
	n := 0
	p.EachInstr(func(fn *ssa.Function, in ssa.Instruction) {
		if p.FileClass(p.FuncPos(fn)) != "prod" || !strings.HasPrefix(funcPkg(fn), ModPath+"/network") {
			return
		}
		st, ok := in.(*ssa.Store)
		if !ok {
			return
		}
		if !strings.Contains(AccessPath(st.Val, 0), "ReadPayload(") && !strings.Contains(AccessPath(st.Val, 0), "readPayload(") {
			return
		}
		n++
		name := p.FuncName(Outer(fn))
		switch name {
		case "(*network/transport/v2.protocol).collectTransactionList", "(*network/transport/v2.protocol).handleTransactionPayloadQuery",
			"(*network/dag.state).ReadPayload", "(*network.Network).GetTransactionPayload", "(*network.Network).Reprocess":
			return
		}
		bad++
		r.Bad("C15.carriers.flow @ "+name, rule, p.Pos(st.Pos()), "a value read with ReadPayload is stored at "+AccessPath(st.Addr, 0))
	})
	r.Sites += n
	if bad == 0 {
		r.OK("C15.carriers", rule, "", fmt.Sprintf("TransactionPayload.Data stores=%d, Transaction.Payload stores=%d, ReadPayload result stores=%d, all in owners", found[carrier{"TransactionPayload", "Data"}], found[carrier{"Transaction", "Payload"}], n), true)
	}
}

func c15QueryArgs(r *Report, q *ssa.Function) {
	rule := "ARG: membership is tested for the connection's verified node DID on the decrypted list of the requested transaction"
	key := "C15.query.identity-args"
	if q == nil {
		r.Lost(key, rule, "handler not found")
		return
	}
	cs := Calls(q, Fn("network/dag", "PAL", "Contains"))
	ds := Calls(q, Fn("network/transport/v2", "protocol", "decryptPAL"))
	r.Sites += len(cs) + len(ds)
	if len(cs) != 1 || len(ds) != 1 {
		r.Lost(key, rule, "Contains/decryptPAL calls not found")
		return
	}
	recv := AccessPath(cs[0].Common().Args[0], 0)
	arg := AccessPath(cs[0].Common().Args[1], 0)
	enc := AccessPath(ds[0].Common().Args[len(ds[0].Common().Args)-1], 0)
	var problems []string
	if !strings.Contains(recv, "decryptPAL(") {
		problems = append(problems, "Contains is not called on the decrypted PAL ("+recv+")")
	}
	if !strings.Contains(arg, "NodeDID") || !strings.Contains(arg, "Peer(") && !strings.Contains(arg, "peer") {
		problems = append(problems, "Contains is not given peer.NodeDID ("+arg+")")
	}
	if !strings.Contains(enc, "PAL(") || !strings.Contains(enc, "GetTransaction(") {
		problems = append(problems, "the decrypted PAL is not the requested transaction's ("+enc+")")
	}
	if len(problems) > 0 {
		r.Bad(key, rule, r.P.Pos(cs[0].Pos()), strings.Join(problems, "; "))
		return
	}
	r.OK(key, rule, r.P.Pos(cs[0].Pos()), "decryptPAL(tx.PAL()).Contains(peer.NodeDID)", true)
}

func c15StoreArgs(r *Report, hp *ssa.Function) {
	rule := "ARG: the hash compared with the transaction's payload hash is the SHA-256 of the received bytes, and those bytes are what is stored"
	key := "C15.store.hash-of-received-bytes"
	if hp == nil {
		r.Lost(key, rule, "handler not found")
		return
	}
	eq := r.P.CallsNear(hp, Fn("crypto/hash", "SHA256Hash", "Equals"))
	wr := r.P.CallsNear(hp, Fn("network/dag", "State", "WritePayload"))
	r.Sites += len(eq) + len(wr)
	if len(eq) != 1 || len(wr) != 1 {
		r.Lost(key, rule, "Equals/WritePayload calls not found")
		return
	}
	defer r.P.BindHelperParams(hp, eq[0])()
	defer r.P.BindHelperParams(hp, wr[0])()
	a, b := AccessPath(eq[0].Common().Args[0], 0), AccessPath(eq[0].Common().Args[1], 0)
	both := a + " | " + b
	data := AccessPath(CallArg(wr[0].Common(), 3), 0)
	if !strings.Contains(both, "PayloadHash(") || !strings.Contains(both, "SHA256Sum(") || !strings.Contains(both, "Data") {
		r.Bad(key, rule, r.P.Pos(eq[0].Pos()), "compared values are "+both)
		return
	}
	if !strings.Contains(data, "Data") {
		r.Bad(key, rule, r.P.Pos(wr[0].Pos()), "stored bytes are "+data)
		return
	}
	r.OK(key, rule, r.P.Pos(eq[0].Pos()), both, true)
}

// c15AddSinglePayloadWriter: state.Add contains exactly one writePayload call (the hash-gated one).
func c15AddSinglePayloadWriter(r *Report) {
	p := r.P
	rule := "OWN: State.Add writes a payload at exactly one, hash-gated site"
	key := "C15.store.add-single-writer"
	add := p.Func("network/dag", "state", "Add")
	if add == nil {
		r.Lost(key, rule, "state.Add not found")
		return
	}
	n := len(CallsDeep(add, Fn("network/dag", "PayloadStore", "writePayload")))
	r.Sites += n
	if n != 1 {
		r.Bad(key, rule, p.Pos(add.Pos()), fmt.Sprintf("%d writePayload sites in State.Add (expected 1)", n))
		return
	}
	r.OK(key, rule, p.Pos(add.Pos()), "1 site", false)
}

func c15ServiceOfClaimedDID(r *Report, ta *ssa.Function) {
	rule := "ARG: the TLS authenticator resolves the NutsComm service of the claimed node DID and verifies the certificate against that URL's host name"
	key := "C15.tls.service-of-claimed-did"
	if ta == nil {
		r.Lost(key, rule, "authenticator not found")
		return
	}
	rs := Calls(ta, Fn("vdr/resolver", "ServiceResolver", "Resolve"))
	vh := Calls(ta, Fn("std:crypto/x509", "Certificate", "VerifyHostname"))
	r.Sites += len(rs) + len(vh)
	if len(rs) != 1 || len(vh) != 1 {
		r.Lost(key, rule, "Resolve/VerifyHostname calls not found")
		return
	}
	q := AccessPath(CallArg(rs[0].Common(), 0), 0)
	h := AccessPath(CallArg(vh[0].Common(), 0), 0)
	cert := AccessPath(vh[0].Common().Args[0], 0)
	if !strings.Contains(q, "MakeServiceReference(nodeDID") {
		r.Bad(key, rule, r.P.Pos(rs[0].Pos()), "service reference is "+q)
		return
	}
	if !strings.Contains(h, "Hostname(") {
		r.Bad(key, rule, r.P.Pos(vh[0].Pos()), "verified host name is "+h)
		return
	}
	if !strings.Contains(cert, "peer.Certificate") {
		r.Bad(key, rule, r.P.Pos(vh[0].Pos()), "verified certificate is "+cert)
		return
	}
	r.OK(key, rule, r.P.Pos(vh[0].Pos()), "peer.Certificate.VerifyHostname(NutsComm(nodeDID).Hostname())", true)
}

func c15RetryPredicates(r *Report) {
	p := r.P
	rule := "ARG: payload queries are sent only to connected, authenticated connections of a listed participant"
	key := "C15.retry.authenticated-participants"
	fn := p.Func("network/transport/v2", "protocol", "handlePrivateTxRetry")
	if fn == nil {
		r.Lost(key, rule, "handlePrivateTxRetry not found")
		return
	}
	gets := Calls(fn, Fn("network/transport/grpc", "ConnectionList", "Get"))
	r.Sites += len(gets)
	if len(gets) != 1 {
		r.Lost(key, rule, fmt.Sprintf("%d connectionList.Get calls", len(gets)))
		return
	}
	have := map[string]bool{}
	for _, el := range VariadicElems(gets[0]) {
		if c, ok := StripConv(el).(*ssa.Call); ok {
			if f := c.Common().StaticCallee(); f != nil {
				have[f.Name()] = true
			}
		}
	}
	for _, w := range []string{"ByAuthenticated", "ByNodeDID"} {
		if !have[w] {
			r.Bad(key, rule, p.Pos(gets[0].Pos()), "predicate "+w+" missing")
			return
		}
	}
	r.OK(key, rule, p.Pos(gets[0].Pos()), "ByConnected, ByNodeDID(participant), ByAuthenticated", true)
}

// c15PALFromThisHeader: the participant list decryptPAL hands to the membership test is decrypted, in this call, from the
// header it was given (no remembered list from an earlier call: a memo key that is not the whole header can collide,
// and the list of another transaction would then admit the peer).
func c15PALFromThisHeader(r *Report) {
	p := r.P
	rule := "ARG: every non-nil list returned by decryptPAL is the result of EncryptedPAL.Decrypt applied to the `encrypted` parameter in this call"
	fn := p.Func("network/transport/v2", "protocol", "decryptPAL")
	if fn == nil {
		r.Lost("C15.pal.decrypted-from-this-header", rule, "decryptPAL not found")
		return
	}
	key := "C15.pal.decrypted-from-this-header @ " + p.FuncName(fn)
	dec := Fn("network/dag", "EncryptedPAL", "Decrypt")
	n := 0
	for _, b := range fn.Blocks {
		ret, ok := b.Instrs[len(b.Instrs)-1].(*ssa.Return)
		if !ok || len(ret.Results) == 0 {
			continue
		}
		v := StripConv(Unspill(ret.Results[0]))
		if IsNilConst(v) {
			continue
		}
		n++
		okv := false
		if ex, isEx := v.(*ssa.Extract); isEx && ex.Index == 0 {
			if call, isCall := ex.Tuple.(*ssa.Call); isCall && dec.M(call.Common()) {
				recv := CallArg(call.Common(), -1)
				if OriginV(ParamV("encrypted")).M(recv) || ParamV("encrypted").M(StripConv(recv)) {
					okv = true
				}
			}
		}
		if !okv {
			r.Bad(key, rule, p.Pos(ret.Pos()), "returns "+AccessPath(ret.Results[0], 0))
			return
		}
	}
	r.Sites += n
	if n == 0 {
		r.Lost(key, rule, "no non-nil return found")
		return
	}
	r.OK(key, rule, p.Pos(fn.Pos()), fmt.Sprintf("%d non-nil return(s)", n), true)
}
