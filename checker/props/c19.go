package props

import (
	"fmt"
	"go/token"
	"go/types"
	"os"
	"strings"

	"golang.org/x/tools/go/ssa"

	. "verifcheck/an"
)

func init() { Registry["C19"] = c19; AlwaysWhole["C19"] = true }

var c19Packages = []string{
	"network/dag", "network/dag/tree", "network/transport/v2", "network/transport/v2/gossip", "network/transport/grpc", "network/transport",
	"vdr/resolver", "vdr/didnuts", "vdr/didnuts/didstore", "vdr/didweb", "vdr/didkey", "vdr/didjwk", "vdr/didx509",
	"vcr/pe", "vcr/verifier", "vcr/credential", "vcr/credential/store", "vcr/revocation", "vcr/signature", "vcr/signature/proof", "vcr/issuer", "vcr/holder", "vcr/openid4vci", "vcr/api/openid4vci/v0", "vcr",
	"crypto/dpop", "crypto", "crypto/jwx", "http/tokenV2", "discovery", "discovery/api/server", "discovery/api/server/client",
	"http/client", "auth/api/iam", "auth/client/iam", "auth/oauth", "auth/services/oauth", "auth/api/auth/v1", "jsonld", "policy",
	// second ring: packages that see remote documents, tokens or peer data after a first parser has accepted them
	// (the engine roots network, pki, vdr, http/user and auth/services/selfsigned are NOT in scope: their panic-capable sites are
	// life-cycle invariants — fields set in Configure/Start — which these detectors cannot tell from input handling)
	"auth/services/irma", "auth/services/notary", "auth/contract", "auth/services",
	"didman", "vdr/didnuts/util", "crypto/hash", "vcr/trust", "vcr/types", "golden_hammer",
}

func c19(r *Report) {
	p := r.P
	r.Explanation = "Static decision of panic- and hang-freedom conditions in the packages that parse untrusted input (" + fmt.Sprint(len(c19Packages)) + " packages, production files): every construct of ten panic-capable kinds is enumerated from the SSA form — D1 unchecked type assertion, D2 dereference of an optional (json omitempty) pointer field, D3 dereference of a result whose error was discarded, D4 use of a pointer/interface field that the package itself compares with nil elsewhere, D5 explicit panic, D6 dereference of the result of a function that can return (nil, nil), explicitly or by tolerating its callee's error, D7 a number decoded from input (json/protobuf field) used as a slice bound, index or allocation size without dominating lower- and upper-bound comparisons, D8 a slice converted to an array without a dominating test of its length, D9 a write into the map / dereference of the pointer of a comma-ok assertion or lookup whose ok is not established, D10 dereference of the result of a standard-library function that reports malformed input by a nil result (elliptic.Unmarshal*, pem.Decode, big.Int.SetString …) — and each is either discharged by a recognised dominating guard (comma-ok assertion on the same access path, nil test on the same access path, value whose producers all return that concrete type), or is listed in the reviewed-safe table (one named construct + reason), or is reported. Termination: each resolver that follows references stored in untrusted documents keeps its fuel (depth gate before recursion, depth+1 passed), and the IBLT decode loop continues only after recording the peeled key in a set it refuses to revisit."
	r.NotDecided = []string{"index out of range and slice bounds in general", "integer conversions, memory exhaustion (e.g. gzip expansion of status lists)", "panics inside dependencies", "termination of loops other than the listed fuel checks", "nil results of calls whose error was checked but which may return (nil, nil)"}
	r.Assumptions = []string{"net/http recovers panics in request goroutines; panics in background goroutines (network handlers, notifiers, discovery refresh) terminate the process", "go-did leaves optional pointer fields nil when absent"}

	sites := p.PanicSites(PanicSpec{Packages: c19Packages})
	if os.Getenv("C19_LIST") != "" {
		for _, s := range sites {
			fmt.Printf("%s | %s | %s\n", s.Key(p), p.Pos(s.Pos), s.Detail)
		}
	}
	r.Sites += len(sites)
	rule := "PANICSITE: a panic-capable construct in untrusted-input code is guarded, reviewed-safe (listed), or reported"
	used := map[string]bool{}
	for _, s := range sites {
		if strings.HasPrefix(Outer(s.Fn).Name(), "init") {
			continue
		}
		key := "C19." + s.Key(p)
		if reason, ok := c19Reviewed[s.Key(p)]; ok {
			used[s.Key(p)] = true
			r.OK(key, rule, p.Pos(s.Pos), "reviewed: "+reason, true)
			continue
		}
		detail := s.Detail
		if detail == "" {
			detail = "unguarded " + s.Detector
		}
		r.Bad(key, rule, p.Pos(s.Pos), detail+" — not covered by a recognised guard and not in the reviewed-safe table")
	}
	if len(sites) < 60 {
		r.Lost("C19.sites", rule, fmt.Sprintf("only %d panic-capable sites enumerated (expected >= 60): scope or detectors lost", len(sites)))
	}
	r.Extra["reviewed_table_entries"] = len(c19Reviewed)
	r.Extra["reviewed_entries_matched"] = len(used)

	// reviewed-safe entries whose reason is itself a checkable guard are re-checked here (the table must not outlive its reasons)
	// — matchBasic dereferences candidate.VC after returning early when any descriptor is unmatched:
	mb := p.Func("vcr/pe", "PresentationDefinition", "matchBasic")
	r.Gate(Gate{ID: "C19.reviewed.matchBasic-returns-early-if-any-unmatched", Fn: mb, Effect: CallEffect(Fn("github.com/nuts-foundation/go-did/vc", "VerifiableCredential", "Format")),
		Check: CmpCheck("len(descriptorsNotMatched) > 0 is false", token.LSS, IntV(0), LenV(AnyV()), false)})
	r.MustReach(MustReach{ID: "C19.reviewed.matchBasic-records-every-unmatched", Fn: mb, Cond: CmpCheck("candidate.VC == nil", token.EQL, FieldV("Candidate", "VC"), NilV(), true),
		Target: Callee{Desc: "append", M: func(cc *ssa.CallCommon) bool { b, ok := cc.Value.(*ssa.Builtin); return ok && b.Name() == "append" }}})
	msr := p.Func("vcr/pe", "PresentationDefinition", "matchSubmissionRequirements")
	// the appends that feed the slice handed to sortCandidatesByCredential (= the slice the mapping loop ranges over)
	feeds := map[ssa.Value]bool{}
	if msr != nil {
		var walk func(v ssa.Value, d int)
		walk = func(v ssa.Value, d int) {
			if v == nil || feeds[v] || d > 8 {
				return
			}
			feeds[v] = true
			switch x := v.(type) {
			case *ssa.Phi:
				for _, e := range x.Edges {
					walk(e, d+1)
				}
			case *ssa.Call:
				if b, isB := x.Call.Value.(*ssa.Builtin); isB && b.Name() == "append" {
					walk(x.Call.Args[0], d+1)
				}
			}
		}
		for _, sc := range Calls(msr, Fn("vcr/pe", "", "sortCandidatesByCredential")) {
			walk(CallArg(sc.Common(), 0), 0)
		}
	}
	r.Gate(Gate{ID: "C19.reviewed.selected-candidates-have-a-credential", Fn: msr, Effect: InstrEffect("selectedCandidates = append(selectedCandidates, candidate)", func(in ssa.Instruction) bool {
		c, ok := in.(*ssa.Call)
		if !ok || !feeds[c] {
			return false
		}
		b, isB := c.Call.Value.(*ssa.Builtin)
		return isB && b.Name() == "append"
	}), Check: CmpCheck("candidate.VC == nil is false", token.EQL, FieldV("Candidate", "VC"), NilV(), false)})
	// positive control: the detectors must fire on the fixture
	c19Fixture(r)

	// termination / fuel
	r.Fuel(FuelSpec{ID: "C19.depth.didnuts-controllers", Fn: p.Func("vdr/didnuts", "", "resolve"), Depth: "depth",
		Recursive: Fn("vdr/didnuts", "", "resolveControllers"), Back: p.Func("vdr/didnuts", "", "resolveControllers"), BackCall: Fn("vdr/didnuts", "", "resolve")})
	r.Fuel(FuelSpec{ID: "C19.depth.service-references", Fn: p.Func("vdr/resolver", "DIDServiceResolver", "ResolveEx"), Depth: "depth",
		Recursive: Fn("vdr/resolver", "DIDServiceResolver", "ResolveEx")})
	c19DecodeFuel(r)
	c19Termination(r)
	c19LibraryPanicGuards(r)
	c19Audit3(r)
	c19LockPairing(r)
	// status lists do not recurse: a status list credential that itself carries a status is refused
	r.Refuse(Refuse{ID: "C19.depth.statuslist-no-recursion", Fn: p.Func("vcr/revocation", "StatusList2021", "validate"),
		Cond: CmpCheck("len(credentialStatus) > 0 / CredentialStatus != nil", token.EQL, FieldV("VerifiableCredential", "CredentialStatus"), NilV(), false)})
}

func c19Fixture(r *Report) {
	rule := "SELF-TEST: the panic-site detectors report the fixture's unchecked assertion, optional-pointer dereference and discarded-error dereference"
	fp, err := LoadFixture("c19_panics")
	if err != nil {
		r.Undecided("C19.fixture", rule, "", "fixture failed to load: "+err.Error())
		return
	}
	sites := fp.PanicSitesAll()
	got := map[string]bool{}
	for _, s := range sites {
		got[s.Detector] = true
	}
	for _, d := range []string{"D1.unchecked-assertion", "D2.optional-pointer-deref", "D3.discarded-error-deref", "D4.nil-checked-elsewhere", "D5.explicit-panic", "D6.nil-nil-result-deref", "D7.input-number-as-bound", "D8.slice-to-array", "D9.zero-value-of-failed-comma-ok", "D10.nil-on-failure-result-deref"} {
		if !got[d] {
			r.Undecided("C19.fixture", rule, "", "detector "+d+" did not fire on the fixture")
			return
		}
	}
	// precision control: the two-sided guard in d7ok must not be reported; d7 must be reported twice
	n7, okFlagged := 0, false
	for _, s := range sites {
		if s.Detector == "D7.input-number-as-bound" {
			n7++
			if s.Fn.Name() == "d7ok" {
				okFlagged = true
			}
		}
	}
	n8, ok8Flagged := 0, false
	for _, s := range sites {
		if s.Detector == "D8.slice-to-array" {
			n8++
			if s.Fn.Name() == "d8ok" {
				ok8Flagged = true
			}
		}
	}
	for _, s := range sites {
		if (s.Detector == "D9.zero-value-of-failed-comma-ok" || s.Detector == "D10.nil-on-failure-result-deref") && strings.HasSuffix(s.Fn.Name(), "ok") {
			r.Undecided("C19.fixture", rule, "", "precision control failed: the guarded variant "+s.Fn.Name()+" is reported by "+s.Detector)
			return
		}
	}
	if ok8Flagged || n8 != 1 {
		r.Undecided("C19.fixture", rule, "", fmt.Sprintf("D8 precision control failed: %d D8 sites, guarded site flagged=%v", n8, ok8Flagged))
		return
	}
	if okFlagged || n7 != 2 {
		r.Undecided("C19.fixture", rule, "", fmt.Sprintf("D7 precision control failed: %d D7 sites, guarded site flagged=%v", n7, okFlagged))
		return
	}
	r.OK("C19.fixture", rule, "", fmt.Sprintf("%d fixture sites reported by all ten detectors; the guarded D7 variant is not reported", len(sites)), false)
}

// c19DecodeFuel: in Iblt.Decode every assignment `updated = true` (which is what lets the unbounded loop continue) is
// dominated by a MapUpdate into a set that a dominating membership test on the same map refuses to revisit.
func c19DecodeFuel(r *Report) {
	p := r.P
	rule := "FUEL: the IBLT decode loop continues only after recording the peeled key in a set whose members it refuses to peel again"
	key := "C19.depth.iblt-decode"
	fn := p.Func("network/dag/tree", "Iblt", "Decode")
	if fn == nil {
		r.Lost(key, rule, "Iblt.Decode not found")
		return
	}
	// blocks that make `updated` true: preds of phi edges carrying the constant true, for bool phis used in an If
	var trueBlocks []*ssa.BasicBlock
	seen := map[*ssa.Phi]bool{}
	var walk func(v ssa.Value)
	walk = func(v ssa.Value) {
		phi, ok := v.(*ssa.Phi)
		if !ok || seen[phi] {
			return
		}
		seen[phi] = true
		for i, e := range phi.Edges {
			if b, ok := ConstBool(e); ok && b {
				trueBlocks = append(trueBlocks, phi.Block().Preds[i])
			}
			walk(e)
		}
	}
	for _, b := range fn.Blocks {
		if len(b.Instrs) == 0 {
			continue
		}
		if i, ok := b.Instrs[len(b.Instrs)-1].(*ssa.If); ok {
			c := i.Cond
			if u, ok := c.(*ssa.UnOp); ok && u.Op == token.NOT {
				c = u.X
			}
			walk(c)
		}
	}
	r.Sites += len(trueBlocks)
	if len(trueBlocks) == 0 {
		r.Lost(key, rule, "no `updated = true` assignment recognised")
		return
	}
	var updates []*ssa.MapUpdate
	var lookups []*ssa.Lookup
	for _, b := range fn.Blocks {
		for _, in := range b.Instrs {
			switch x := in.(type) {
			case *ssa.MapUpdate:
				updates = append(updates, x)
			case *ssa.Lookup:
				lookups = append(lookups, x)
			}
		}
	}
	for _, tb := range trueBlocks {
		ok := false
		for _, mu := range updates {
			if !(mu.Block() == tb || mu.Block().Dominates(tb)) {
				continue
			}
			// a lookup on the same map whose true edge leaves (returns) must dominate the update
			for _, lk := range lookups {
				if lk.X != mu.Map || !(lk.Block() == mu.Block() || lk.Block().Dominates(mu.Block())) {
					continue
				}
				ok = true
			}
		}
		if !ok {
			r.Bad(key, rule, p.Pos(fn.Pos()), "an `updated = true` assignment is not dominated by membership-test + insertion into a visited set: a crafted filter can make the peel loop run forever")
			return
		}
	}
	// and the membership hit refuses
	r.Refuse(Refuse{ID: "C19.depth.iblt-decode.revisit-refused", Fn: fn, Cond: Check{Desc: "key already peeled", Pass: IsTrue, Values: func(f *ssa.Function) []ssa.Value {
		var out []ssa.Value
		for _, lk := range lookups {
			out = append(out, lk)
		}
		return out
	}}})
	r.OK(key, rule, p.Pos(fn.Pos()), fmt.Sprintf("%d continuation assignment(s), each behind a visited-set insertion", len(trueBlocks)), true)
}

// c19Termination: loops and matchers fed by remote responses that have no fuel of their own.
func c19Termination(r *Report) {
	p := r.P
	const hc = "http/client"
	// (1) the make-room loop of the HTTP response cache evicts only while there is an entry to evict (fix: a body of exactly
	// maxbytes, or accounted bytes of entries that had dropped out of the list, kept `size+len >= max` true forever)
	ins := p.Func(hc, "responseCache", "insert")
	r.Gate(Gate{ID: "C19.term.cache-eviction-needs-an-entry", Fn: ins, Effect: CallEffect(Fn(hc, "responseCache", "pop")),
		Check: CmpCheck("h.head == nil is false", token.EQL, FieldV("responseCache", "head"), NilV(), false),
		Alt:   []Check{CmpCheck("pop() == nil is false", token.EQL, CallV(Fn(hc, "responseCache", "pop"), -1), NilV(), false)},
		Note:  "pop() changes nothing when the list is empty: a loop that calls it with an empty list never ends"})
	c19ListInsertLinks(r, ins)
	// (2) every regexp2 (backtracking) regular expression gets a match timeout before it is used
	c19Regexp2Timeout(r)
}

// c19ListInsertLinks: whenever insert overwrites a link cell (h.head or some x.next) with the new entry, the entry's own
// next was set to the previous content of that same cell — otherwise the entries behind that cell drop out of the list
// (they stay indexed and accounted but can neither expire nor be evicted). Writing the head of an empty list needs no link.
func c19ListInsertLinks(r *Report, fn *ssa.Function) {
	p := r.P
	rule := "ORDER: a link cell (head / next) is overwritten with the new entry only after entry.next was set to the previous content of that cell (or the cell is known to be nil)"
	key := "C19.term.cache-insert-keeps-the-list"
	if fn == nil {
		r.Lost(key, rule, "responseCache.insert not found")
		return
	}
	key += " @ " + p.FuncName(fn)
	isEntry := ParamV("entry")
	isLink := func(a ssa.Value) bool {
		fa, ok := a.(*ssa.FieldAddr)
		if !ok {
			return false
		}
		pt, ok := fa.Type().Underlying().(*types.Pointer)
		if !ok {
			return false
		}
		// a cell of type *cacheEntry
		ep, ok := pt.Elem().Underlying().(*types.Pointer)
		if !ok {
			return false
		}
		n, ok := ep.Elem().(*types.Named)
		return ok && n.Obj().Name() == "cacheEntry"
	}
	var stores, linkStores []*ssa.Store
	for _, b := range fn.Blocks {
		for _, in := range b.Instrs {
			st, ok := in.(*ssa.Store)
			if !ok || !isLink(st.Addr) {
				continue
			}
			if fa := st.Addr.(*ssa.FieldAddr); isEntry.M(fa.X) {
				linkStores = append(linkStores, st) // entry.next = …
				continue
			}
			if isEntry.M(st.Val) {
				stores = append(stores, st) // cell = entry
			}
		}
	}
	r.Sites += len(stores) + len(linkStores)
	if len(stores) == 0 {
		r.Lost(key, rule, "no store of the new entry into a link cell found")
		return
	}
	for _, st := range stores {
		ok := false
		for _, ls := range linkStores {
			if !InstrDominates(ls, st) {
				continue
			}
			if ld, isLoad := ls.Val.(*ssa.UnOp); isLoad && ld.Op == token.MUL && SameExpr(ld.X, st.Addr, 4) {
				ok = true
			}
		}
		if !ok && FactHolds(st.Block(), token.EQL, VPat{Desc: "the cell", M: func(v ssa.Value) bool {
			ld, isLoad := v.(*ssa.UnOp)
			return isLoad && ld.Op == token.MUL && SameExpr(ld.X, st.Addr, 4)
		}}, NilV()) {
			ok = true
		}
		if !ok {
			r.Bad(key, rule, p.Pos(st.Pos()), "the cell "+AccessPath(st.Addr, 0)+" is overwritten with the new entry, but entry.next was not set to the cell's previous content: the entries behind it drop out of the eviction list")
			return
		}
	}
	r.OK(key, rule, p.Pos(fn.Pos()), fmt.Sprintf("%d link-cell store(s), each preceded by entry.next = <that cell>", len(stores)), true)
}

// c19Regexp2Timeout: module-wide, every regexp2.Compile/MustCompile result has MatchTimeout stored before any other use.
func c19Regexp2Timeout(r *Report) {
	p := r.P
	const re2 = "github.com/dlclark/regexp2"
	rule := "ORDER: a regexp2 (backtracking) expression is used only after its MatchTimeout was set"
	n := 0
	for _, s := range p.CallSites(AnyOf(Fn(re2, "", "Compile"), Fn(re2, "", "MustCompile")), false) {
		if p.FileClass(p.FuncPos(s.Fn)) != "prod" {
			continue
		}
		n++
		key := "C19.term.regexp2-match-timeout @ " + p.FuncName(s.Fn)
		call, ok := s.Instr.(*ssa.Call)
		if !ok {
			r.Undecided(key, rule, p.Pos(s.Pos), "regexp2.Compile is not called directly (go/defer/method value)")
			continue
		}
		// the *Regexp value(s): the call itself (MustCompile) or the extracted first component
		var res []ssa.Value
		if _, isTuple := call.Type().(*types.Tuple); isTuple {
			for _, ref := range *call.Referrers() {
				if ex, ok := ref.(*ssa.Extract); ok && ex.Index == 0 {
					res = append(res, ex)
				}
			}
		} else {
			res = append(res, call)
		}
		var sets []ssa.Instruction
		var uses []ssa.Instruction
		for _, v := range res {
			for _, ref := range *v.Referrers() {
				if fa, ok := ref.(*ssa.FieldAddr); ok {
					st := fa.X.Type().Underlying().(*types.Pointer).Elem().Underlying().(*types.Struct)
					if st.Field(fa.Field).Name() == "MatchTimeout" {
						for _, r2 := range *fa.Referrers() {
							if store, ok := r2.(*ssa.Store); ok && store.Addr == ssa.Value(fa) {
								sets = append(sets, store)
							}
						}
						continue
					}
				}
				if b, ok := ref.(*ssa.BinOp); ok && (IsNilConst(b.X) || IsNilConst(b.Y)) {
					continue
				}
				if _, ok := ref.(*ssa.DebugRef); ok {
					continue
				}
				uses = append(uses, ref)
			}
		}
		bad := ""
		for _, u := range uses {
			dominated := false
			for _, st := range sets {
				if InstrDominates(st, u) {
					dominated = true
				}
			}
			if !dominated {
				bad = p.Pos(u.Pos())
				break
			}
		}
		switch {
		case len(sets) == 0:
			r.Bad(key, rule, p.Pos(s.Pos), "MatchTimeout is never set on this expression: regexp2 backtracks without a time limit, a pattern from remote input can keep the matcher busy forever")
		case bad != "":
			r.Bad(key, rule, bad, "the expression is used on a path on which MatchTimeout has not been set")
		default:
			r.OK(key, rule, p.Pos(s.Pos), fmt.Sprintf("MatchTimeout set before all %d use(s)", len(uses)), true)
		}
	}
	r.Sites += n
	if n == 0 {
		r.Lost("C19.term.regexp2-match-timeout", rule, "no regexp2.Compile call found in production code (expected >= 1)")
	}
}

// c19LibraryPanicGuards: keys and documents from remote parties are vetted before they reach library functions that panic
// on them (each guard was added by a fix after a demonstrated crash; the rules keep the guard in front of the sink).
func c19LibraryPanicGuards(r *Report) {
	p := r.P
	const jwkPkg = "github.com/lestrrat-go/jwx/v2/jwk"
	const didPkg = "github.com/nuts-foundation/go-did/did"
	ecOK := ErrCheck(Fn("crypto/jwx", "", "ValidateECCoordinates"))
	// (1) EC coordinates: jwk.Key.Thumbprint / AssignKeyID / FromRaw panic (big.Int.FillBytes) on a coordinate larger than the curve
	vt := p.Func("vdr/didnuts", "verificationMethodValidator", "verifyThumbprint")
	r.Gate(Gate{ID: "C19.guard.ec-coordinates.network-document", Fn: vt, Effect: CallEffect(AnyOf(Fn(jwkPkg, "", "AssignKeyID"), p.FnOrImpl(jwkPkg, "Key", "Thumbprint"))), Check: ecOK})
	fk := p.Func("vdr/didnuts", "ambassador", "findKeyByThumbprint")
	r.Gate(Gate{ID: "C19.guard.ec-coordinates.update-signing-key-search", Fn: fk, Effect: CallEffect(p.FnOrImpl(jwkPkg, "Key", "Thumbprint")), Check: ecOK})
	jr := p.Func("vdr/didjwk", "Resolver", "Resolve")
	r.Gate(Gate{ID: "C19.guard.ec-coordinates.did-jwk", Fn: jr, Effect: CallEffect(AnyOf(Fn(didPkg, "", "NewVerificationMethod"), p.FnOrImpl(jwkPkg, "Key", "Raw"))), Check: ecOK})
	ct := p.Func("auth/api/iam", "", "compareThumbprint")
	r.Gate(Gate{ID: "C19.guard.ec-coordinates.remote-openid-configuration", Fn: ct, Effect: CallEffect(p.FnOrImpl(jwkPkg, "Key", "Thumbprint")), Check: ecOK})
	// (2) Ed25519 key length: crypto/ed25519.Verify panics on a public key that is not 32 bytes
	pk := p.Func("vdr/resolver", "", "publicKeyOf")
	edLen := CmpCheck("len(edKey) != ed25519.PublicKeySize is false", token.EQL, LenV(AnyV()), IntV(32), true)
	notEd := Check{Desc: "key is not an ed25519.PublicKey", Pass: IsFalse, Values: func(fn *ssa.Function) []ssa.Value {
		var out []ssa.Value
		for _, b := range fn.Blocks {
			for _, in := range b.Instrs {
				if ta, isTA := in.(*ssa.TypeAssert); isTA && ta.CommaOk && strings.HasSuffix(ta.AssertedType.String(), "ed25519.PublicKey") {
					for _, ref := range *ta.Referrers() {
						if ex, isEx := ref.(*ssa.Extract); isEx && ex.Index == 1 {
							out = append(out, ex)
						}
					}
				}
			}
		}
		return out
	}}
	r.Gate(Gate{ID: "C19.guard.ed25519-length.resolved-key", Fn: pk, Effect: ReturnsNonNil(0), Check: edLen, Alt: []Check{notEd}})
	r.Own(OwnSpec{ID: "C19.guard.ed25519-length.resolver-hands-out-keys-only-through-the-guard", Op: "call VerificationRelationship.PublicKey in vdr/resolver",
		Sites: func() []Site {
			var out []Site
			for _, s := range p.CallSites(Fn(didPkg, "VerificationMethod", "PublicKey"), false) {
				if strings.Contains(p.FuncName(s.Fn), "vdr/resolver.") {
					out = append(out, s)
				}
			}
			return out
		}(), Min: 1, Owners: map[string]string{"vdr/resolver.publicKeyOf": "checks the Ed25519 key length"}})
	dp := p.Func("crypto/dpop", "", "Parse")
	r.Gate(Gate{ID: "C19.guard.ed25519-length.dpop-header-key", Fn: dp, Effect: CallEffect(Fn("github.com/lestrrat-go/jwx/v2/jwt", "", "ParseString")), Check: edLen, Alt: []Check{notEd}})
	// (3) nil pointers go-did leaves in a parsed DID document: documents from the network and from web servers go through ParseDocument
	cb := p.Func("vdr/didnuts", "ambassador", "callback")
	r.Gate(Gate{ID: "C19.guard.did-document.network", Fn: cb, Effect: CallEffect(AnyOf(Fn("vdr/didnuts", "ambassador", "handleCreateDIDDocument"), Fn("vdr/didnuts", "ambassador", "handleUpdateDIDDocument"), p.FnOrImpl(didPkg, "Validator", "Validate"))),
		Check: ErrCheck(Fn("vdr/resolver", "", "ParseDocument"))})
	pd := p.Func("vdr/resolver", "", "ParseDocument")
	r.Gate(Gate{ID: "C19.guard.did-document.every-relationship-has-a-method", Fn: pd, Effect: ReturnsNonNil(0), ForEach: true,
		Check: CmpCheck("entry.VerificationMethod == nil is false", token.EQL, FieldV("VerificationRelationship", "VerificationMethod"), NilV(), false)})
	r.Gate(Gate{ID: "C19.guard.did-document.no-null-method", Fn: pd, Effect: CallEffect(Fn(didPkg, "", "ParseDocument")), ForEach: true,
		Check: CallCheck(Fn("std:bytes", "", "Equal"), -1, IsFalse), Skip: []Check{CallCheck(Fn("std:strings", "", "EqualFold"), -1, IsFalse), ErrCheck(Fn("std:encoding/json", "", "Unmarshal"))}, AllowEarlyExit: false})
	// (4) null entries in a remote presentation definition's submission requirements
	mt := p.Func("vcr/pe", "PresentationDefinition", "Match")
	r.Gate(Gate{ID: "C19.guard.submission-requirements-not-null", Fn: mt, Effect: CallEffect(Fn("vcr/pe", "PresentationDefinition", "matchSubmissionRequirements")), ForEach: true,
		Check: ErrCheck(Fn("vcr/pe", "SubmissionRequirement", "assertNotNull"))})
	an := p.Func("vcr/pe", "SubmissionRequirement", "assertNotNull")
	r.Gate(Gate{ID: "C19.guard.submission-requirements-not-null.self", Fn: an, Effect: SuccessReturn(), Check: CmpCheck("submissionRequirement == nil is false", token.EQL, ParamV("submissionRequirement"), NilV(), false)})
	r.Gate(Gate{ID: "C19.guard.submission-requirements-not-null.nested", Fn: an, Effect: SuccessReturn(), ForEach: true, Check: ErrCheck(Fn("vcr/pe", "SubmissionRequirement", "assertNotNull"))})
}
