// Package props holds the rule-instance tables, one file per property.
package props

import "verifcheck/an"

type PropFunc func(r *an.Report)

var Registry = map[string]PropFunc{}

// NeedsWhole: properties whose thorough tier uses whole-program syntax.
var NeedsWhole = map[string]bool{}

// AlwaysWhole: properties whose rules need dependency function bodies in both tiers.
var AlwaysWhole = map[string]bool{}
