package props

import (
	"fmt"
	"go/token"
	"go/types"
	"strings"

	"golang.org/x/tools/go/ssa"

	. "verifcheck/an"
)

func init() { Registry["C01"] = c01 }

const goDid = "github.com/nuts-foundation/go-did"

func c01(r *Report) {
	defer c01Seed7(r)
	p := r.P
	const ver = "vcr/verifier"
	r.Explanation = "Static decision that every 'valid' verdict for a credential or presentation is reachable only through the pass edge of each conjunct of the property: (1) verifier.Verify succeeds only via the type validator, the at-most-two-types rule, the revocation lookup (err nil and not revoked), the status-list check not reporting revoked, issuer trust for every type (when trust is required), the validity window, and — when signatures are checked — issuer DID parse, issuer resolution with AllowDeactivated=false, and the signature verification in tail position; (2) doVerifyVP succeeds only via presenter==subject of every credential, holder==subject, the VP signature, and Verify of every embedded credential, whose signature check may be skipped only for credentials issued by the presentation's holder (self-attested); (3) both signature algorithms bind the verification method / kid to the claimed issuer, check the proof's validity window, resolve the key at the validation time and verify; (4) the issuer stores/publishes only after all-fields-defined and type validation; the wallet lists only credentials that pass Verify; (5) API callers verify embedded credentials."
	r.NotDecided = []string{"tamper-evidence of URDNA2015 canonicalisation and JWT claim coverage (values)", "issuer→verifier round trip on any node", "DID document key history (C09/C10)", "status list contents (C11)"}
	r.Assumptions = []string{"go-did's ValidAt / trust configuration behave as documented"}

	vf := p.Func(ver, "verifier", "Verify")
	ok := SuccessReturn()
	r.Gate(Gate{ID: "C01.verify.validator", Fn: vf, Effect: ok, Check: ErrCheck(Fn("vcr/credential", "Validator", "Validate"))})
	r.Gate(Gate{ID: "C01.verify.types", Fn: vf, Effect: ok, Check: CmpCheck("len(Type) > 2 is false", token.LEQ, LenV(FieldV("VerifiableCredential", "Type")), IntV(2), true)})
	idNil := CmpCheck("credential.ID == nil (no id to look up)", token.EQL, FieldV("VerifiableCredential", "ID"), NilV(), true)
	r.Gate(Gate{ID: "C01.verify.revocation-lookup", Fn: vf, Effect: ok, Check: ErrCheck(Fn(ver, "verifier", "IsRevoked")), Alt: []Check{idNil}})
	r.Gate(Gate{ID: "C01.verify.not-revoked", Fn: vf, Effect: ok, Check: CallCheck(Fn(ver, "verifier", "IsRevoked"), 0, IsFalse), Alt: []Check{idNil}})
	// the validator gate makes ID != nil (default validator and the Nuts validators refuse a nil ID): the skip edge is dead for validated credentials
	r.Gate(Gate{ID: "C01.validator.id-required", Fn: p.Func("vcr/credential", "defaultCredentialValidator", "Validate"), Effect: ok, Check: CmpCheck("credential.ID == nil is false", token.EQL, FieldV("VerifiableCredential", "ID"), NilV(), false)})
	// status list: the revoked verdict must fail
	r.Refuse(Refuse{ID: "C01.verify.statuslist-revoked-fails", Fn: vf, Cond: CallCheck(Fn("std:errors", "", "Is"), -1, IsTrue)})
	c01StatusListChecked(r, vf)
	r.Gate(Gate{ID: "C01.verify.trust", Fn: vf, Effect: ok, ForEach: true, Assume: map[string]bool{"allowUntrusted": false},
		Check: CallCheck(Fn("vcr/trust", "Config", "IsTrusted"), -1, IsTrue),
		Skip:  []Check{CmpCheck("type == \"VerifiableCredential\"", token.EQL, CallV(Fn(goDid, "URI", "String"), -1), StrV("VerifiableCredential"), true)}})
	r.Gate(Gate{ID: "C01.verify.window", Fn: vf, Effect: ok, Check: CallCheck(Fn(goDid+"/vc", "VerifiableCredential", "ValidAt"), -1, IsTrue)})
	sig := map[string]bool{"checkSignature": true}
	r.Gate(Gate{ID: "C01.verify.issuer-is-did", Fn: vf, Effect: ok, Assume: sig, Check: ErrCheck(Fn(goDid+"/did", "", "ParseDID"))})
	r.Gate(Gate{ID: "C01.verify.issuer-resolves", Fn: vf, Effect: ok, Assume: sig, Check: ErrCheck(Fn("vdr/resolver", "DIDResolver", "Resolve"))})
	r.Gate(Gate{ID: "C01.verify.signature", Fn: vf, Effect: ok, Assume: sig, Check: ErrCheck(Fn(ver, "signatureVerifier", "VerifySignature"))})
	c01AllowDeactivatedFalse(r, vf)
	// the validation time is handed down unchanged: Verify -> VerifySignature -> jsonldProof/jwtSignature; doVerifyVP -> VerifyVPSignature / Verify
	r.ArgIs("C01.time.verify-passes-validAt", vf, Fn(ver, "signatureVerifier", "VerifySignature"), 1, ParamV("validAt"), 1)
	vs := p.Func(ver, "signatureVerifier", "VerifySignature")
	vps := p.Func(ver, "signatureVerifier", "VerifyVPSignature")
	for _, f := range []*ssa.Function{vs, vps} {
		r.ArgIs("C01.time.signature-passes-validateAt.ld", f, Fn(ver, "signatureVerifier", "jsonldProof"), 2, ParamV("validateAt"), 1)
		r.ArgIs("C01.time.signature-passes-validateAt.jwt", f, Fn(ver, "signatureVerifier", "jwtSignature"), 2, ParamV("validateAt"), 1)
	}
	dvp := p.Func(ver, "verifier", "doVerifyVP")
	r.ArgIs("C01.time.vp-signature-at-validAt", dvp, Fn(ver, "signatureVerifier", "VerifyVPSignature"), 1, ParamV("validAt"), 1)
	r.ArgIs("C01.time.vp-credentials-at-validAt", dvp, p.FnOrImpl(ver, "Verifier", "Verify"), 3, ParamV("validAt"), 1)
	// trust administration: "trusted" means an entry equal to the issuer exists; removing trust looks at EVERY entry of the
	// type's list (the list is loaded from an operator-edited file and may name an issuer more than once)
	const trustPkg = "vcr/trust"
	uriString := OrV(CallV(Fn("github.com/nuts-foundation/go-did", "URI", "String"), -1), OriginV(CallV(Fn("github.com/nuts-foundation/go-did", "URI", "String"), -1)))
	r.Gate(Gate{ID: "C01.trust.trusted-only-if-listed", Fn: p.Func(trustPkg, "Config", "IsTrusted"), Effect: ReturnsBool(0, true),
		Check: CmpCheck("entry == issuer.String()", token.EQL, AnyV(), uriString, true)})
	rt := p.Func(trustPkg, "Config", "RemoveTrust")
	isList := func(v ssa.Value) bool { return FieldV("Config", "issuersPerType").M(v) }
	if dfs := Calls(rt, Fn("std:slices", "", "DeleteFunc")); rt != nil && len(dfs) == 1 {
		// the library form of the same filter: slices.DeleteFunc(list, func(e) bool { return e == issuer.String() }) visits
		// every element; the predicate must say "delete" only for entries equal to the issuer, and the result is what is stored
		pred := closureArgOf(dfs[0], 1)
		r.Gate(Gate{ID: "C01.trust.remove-filters-every-entry", Fn: pred, Effect: ReturnsBool(0, true),
			Check: CmpCheck("entry == issuer.String()", token.EQL, AnyV(), uriString, true)})
		r.Gate(Gate{ID: "C01.trust.remove-filters-every-entry.keeps-others", Fn: pred, Effect: ReturnsBool(0, false),
			Check: CmpCheck("entry == issuer.String() is false", token.EQL, AnyV(), uriString, false)})
	} else {
		r.Gate(Gate{ID: "C01.trust.remove-filters-every-entry", Fn: rt, ForEach: true,
			Effect: InstrEffect("issuersPerType[type] = new list", func(in ssa.Instruction) bool { mu, ok := in.(*ssa.MapUpdate); return ok && isList(mu.Map) }),
			Check:  CmpCheck("entry == issuer.String() is false (kept)", token.EQL, AnyV(), uriString, false),
			Skip:   []Check{CmpCheck("entry == issuer.String() (dropped)", token.EQL, AnyV(), uriString, true)}})
	}
	r.ArgIs("C01.vp.credentials-trust-as-requested", dvp, p.FnOrImpl(ver, "Verifier", "Verify"), 1, ParamV("allowUntrustedVCs"), 1)

	// IsRevoked: false only via ErrNotFound
	r.Gate(Gate{ID: "C01.isrevoked.false-only-if-not-found", Fn: p.Func(ver, "verifier", "IsRevoked"), Effect: InstrEffect("return false, nil", func(in ssa.Instruction) bool {
		ret, ok := in.(*ssa.Return)
		if !ok || len(ret.Results) != 2 {
			return false
		}
		b, isB := ConstBool(ret.Results[0])
		return isB && !b && IsNilConst(ret.Results[1])
	}), Check: CallCheck(Fn("std:errors", "", "Is"), -1, IsTrue)})

	// (2) presentations
	vp := p.Func(ver, "verifier", "doVerifyVP")
	r.Gate(Gate{ID: "C01.vp.presenter-is-subject", Fn: vp, Effect: ok, Check: ErrCheck(Fn("vcr/credential", "", "PresenterIsCredentialSubject"))})
	r.Gate(Gate{ID: "C01.vp.subject-known-or-no-credentials", Fn: vp, Effect: ok, Check: CallCheck(Fn("vcr/credential", "", "PresenterIsCredentialSubject"), 0, NonNil),
		Alt: []Check{CmpCheck("len(VerifiableCredential) > 0 is false", token.LEQ, LenV(FieldV("VerifiablePresentation", "VerifiableCredential")), IntV(0), true)}})
	r.Gate(Gate{ID: "C01.vp.signature", Fn: vp, Effect: ok, Check: ErrCheck(Fn(ver, "signatureVerifier", "VerifyVPSignature"))})
	r.Gate(Gate{ID: "C01.vp.each-credential", Fn: vp, Effect: ok, ForEach: true, Assume: map[string]bool{"verifyVCs": true}, Check: ErrCheck(Fn(ver, "Verifier", "Verify"))})
	c01SelfAttested(r, vp)
	c01Audit3(r, vp)
	r.Own(OwnSpec{ID: "C01.own.doVerifyVP", Op: "call doVerifyVP", Sites: p.CallSites(Fn(ver, "verifier", "doVerifyVP"), true), Min: 1,
		Owners: map[string]string{"(vcr/verifier.verifier).VerifyVP": "passes the real verifier"}})
	// VerifySignature / VerifyVPSignature dispatch: success only via one of the two algorithms
	for _, fn := range []string{"VerifySignature", "VerifyVPSignature"} {
		f := p.Func(ver, "signatureVerifier", fn)
		r.Gate(Gate{ID: "C01.sig.dispatch", Fn: f, Effect: ok, Check: ErrCheck(Fn(ver, "signatureVerifier", "jsonldProof")), Alt: []Check{ErrCheck(Fn(ver, "signatureVerifier", "jwtSignature"))}})
	}
	c01SignerArg(r)

	// (3) JSON-LD proof
	ld := p.Func(ver, "signatureVerifier", "jsonldProof")
	r.Gate(Gate{ID: "C01.ld.vm-of-issuer", Fn: ld, Effect: ok, Check: CmpCheck("verificationMethodIssuer == issuer", token.EQL, PathV("Split(", "#"), ParamV("issuer"), true)})
	r.Gate(Gate{ID: "C01.ld.proof-window", Fn: ld, Effect: ok, Check: CallCheck(Fn("vcr/signature/proof", "ProofOptions", "ValidAt"), -1, IsTrue)})
	r.Gate(Gate{ID: "C01.ld.key-resolved", Fn: ld, Effect: ok, Check: ErrCheck(Fn("vdr/resolver", "KeyResolver", "ResolveKeyByID"))})
	r.Gate(Gate{ID: "C01.ld.signature", Fn: ld, Effect: ok, Check: ErrCheck(Fn("vcr/signature/proof", "LDProof", "Verify"))})
	c17ArgFrom(r, "C01.ld.key-is-resolved-key", ld, Fn("vcr/signature/proof", "LDProof", "Verify"), 2, CallV(Fn("vdr/resolver", "KeyResolver", "ResolveKeyByID"), 0), "the verification key is the key resolved for the proof's verification method")
	c01ResolveTime(r, ld)
	// --- KNOWN FINDINGS (open, see known_findings.json / DESIGN §8): a JSON-LD proof signs the RDF dataset the document
	// canonicalises to, the node reads the JSON by its terms. Three structural necessary conditions for "what is read is what
	// was signed" that the tree does not meet:
	// (a) members the @context does not define are dropped from the dataset (so they are not signed) but are read: the
	//     verifier must refuse them, as the issuer does before signing
	r.Gate(Gate{ID: "C01.ld.undefined-members-refused", Fn: ld, Effect: ok, Check: ErrCheck(Fn("jsonld", "", "AllFieldsDefined")),
		Note: "only the issuer calls jsonld.AllFieldsDefined; the verifier accepts added (and, through encoding/json's case folding, overriding) members"})
	// (b) canonicalisation runs in the processor's safe mode (relative @id nodes, undefined terms and other lossy constructs are
	//     errors instead of being silently dropped from the signed dataset)
	c01SafeMode(r)
	// (c) a JSON-LD presentation's proof covers its credentials: a JWT credential is a plain string in the document, which
	//     canonicalises to nothing — the verifier must not accept JWT credentials inside a JSON-LD presentation
	vps = p.Func(ver, "signatureVerifier", "VerifyVPSignature")
	r.Gate(Gate{ID: "C01.vp.ld-proof-covers-embedded-credentials", Fn: vps, Effect: CallEffect(Fn(ver, "signatureVerifier", "jsonldProof")), ForEach: true,
		Check: CmpCheck("credential.Format() == jwt_vc is false", token.EQL, CallV(Fn("github.com/nuts-foundation/go-did/vc", "VerifiableCredential", "Format"), -1), StrV("jwt_vc"), false),
		Note:  "JWT credentials embedded in a JSON-LD presentation can be swapped after signing"})
	// JWT
	jw := p.Func(ver, "signatureVerifier", "jwtSignature")
	r.Gate(Gate{ID: "C01.jwt.verified", Fn: jw, Effect: ok, Check: ErrCheck(Fn("crypto", "", "ParseJWT"))})
	r.Gate(Gate{ID: "C01.jwt.kid-of-issuer", Fn: jw, Effect: ok, Check: CmpCheck("strings.Split(keyID, \"#\")[0] == issuer", token.EQL, PathV("Split(", "#"), ParamV("issuer"), true),
		Alt: []Check{CmpCheck("keyID == \"\" (key resolved from the issuer itself)", token.EQL, PathV("keyID"), StrV(""), true)}})
	// LDProof.Verify is C17

	// (4) issuer and wallet
	is := p.Func("vcr/issuer", "issuer", "Issue")
	out := AnyEffect(CallEffect(Fn("vcr/issuer", "Store", "StoreCredential")), CallEffect(Fn("vcr/issuer", "Publisher", "PublishCredential")))
	r.Gate(Gate{ID: "C01.issue.all-fields-defined", Fn: is, Effect: out, Check: ErrCheck(Fn("jsonld", "", "AllFieldsDefined"))})
	r.Gate(Gate{ID: "C01.issue.validator", Fn: is, Effect: out, Check: ErrCheck(Fn("vcr/credential", "Validator", "Validate"))})
	r.Gate(Gate{ID: "C01.issue.signed", Fn: is, Effect: out, Check: ErrCheck(Fn("vcr/issuer", "issuer", "buildAndSignVC"))})
	wl := p.Func("vcr/holder", "sqlWallet", "List")
	wc := ErrCheck(Fn(ver, "Verifier", "Verify"))
	r.Gate(Gate{ID: "C01.wallet.only-valid-listed", Fn: wl, Check: wc, Effect: InstrEffect("append to the listed credentials", func(in ssa.Instruction) bool {
		c, ok := in.(*ssa.Call)
		if !ok {
			return false
		}
		b, ok := c.Call.Value.(*ssa.Builtin)
		return ok && b.Name() == "append"
	})})

	// (5) callers verify embedded credentials
	c01VerifyVPCallers(r)
}

// c01StatusListChecked: the status list verifier is called on every path to success, and its revoked verdict returns the error.
func c01StatusListChecked(r *Report, vf *ssa.Function) {
	rule := "ORDER: credentialStatus.Verify is called on every successful path of Verify"
	key := "C01.verify.statuslist-called"
	if vf == nil {
		r.Lost(key, rule, "Verify not found")
		return
	}
	calls := Calls(vf, Fn("vcr/revocation", "StatusList2021Verifier", "Verify"))
	r.Sites += len(calls)
	if len(calls) != 1 {
		r.Bad(key, rule, r.P.Pos(vf.Pos()), fmt.Sprintf("%d calls of the status list verifier", len(calls)))
		return
	}
	// every success return must be dominated by the call
	for _, b := range vf.Blocks {
		ret, ok := b.Instrs[len(b.Instrs)-1].(*ssa.Return)
		if !ok {
			continue
		}
		if c, isC := ret.Results[0].(*ssa.Const); isC && c.IsNil() && !InstrDominates(calls[0], ret) {
			r.Bad(key, rule, r.P.Pos(ret.Pos()), "a success return is not dominated by the status list check")
			return
		}
		if call, isCall := ret.Results[0].(*ssa.Call); isCall && Fn("vcr/verifier", "signatureVerifier", "VerifySignature").M(call.Common()) && !InstrDominates(calls[0], call) {
			r.Bad(key, rule, r.P.Pos(ret.Pos()), "the signature tail return is not dominated by the status list check")
			return
		}
	}
	r.OK(key, rule, r.P.Pos(calls[0].Pos()), "dominates every success return", true)
}

func c01AllowDeactivatedFalse(r *Report, vf *ssa.Function) {
	rule := "ARG: the issuer is resolved with AllowDeactivated = false and ResolveTime = validAt"
	key := "C01.verify.issuer-active-at-time"
	if vf == nil {
		r.Lost(key, rule, "Verify not found")
		return
	}
	okDeact, okTime := false, false
	for _, b := range vf.Blocks {
		for _, in := range b.Instrs {
			st, ok := in.(*ssa.Store)
			if !ok {
				continue
			}
			fa, ok := st.Addr.(*ssa.FieldAddr)
			if !ok {
				continue
			}
			n := NamedOf(fa.X.Type())
			if n == nil || n.Obj().Name() != "ResolveMetadata" {
				continue
			}
			r.Sites++
			load := &ssa.UnOp{Op: token.MUL, X: fa}
			if FieldPathEnds(load, "AllowDeactivated") {
				if b, isB := ConstBool(st.Val); isB && !b {
					okDeact = true
				} else {
					r.Bad(key, rule, r.P.Pos(st.Pos()), "AllowDeactivated is not the constant false")
					return
				}
			}
			if FieldPathEnds(load, "ResolveTime") && ParamV("validAt").M(st.Val) {
				okTime = true
			}
		}
	}
	if !okTime {
		r.Bad(key, rule, r.P.Pos(vf.Pos()), "ResolveTime is not the validAt parameter")
		return
	}
	_ = okDeact // the zero value of the literal is false as well
	r.OK(key, rule, r.P.Pos(vf.Pos()), "metadata literal: ResolveTime=validAt, AllowDeactivated=false", true)
}

// c01SelfAttested: the checkSignature argument of the per-credential Verify is the constant true, except on paths through
// the comparison holder == credential issuer (self-attested credentials protected by the VP proof).
func c01SelfAttested(r *Report, vp *ssa.Function) {
	rule := "GATE: an embedded credential's signature check may be skipped only when the presentation holder equals the credential issuer (self-attested)"
	key := "C01.vp.signature-skipped-only-self-attested"
	if vp == nil {
		r.Lost(key, rule, "doVerifyVP not found")
		return
	}
	calls := Calls(vp, Fn("vcr/verifier", "Verifier", "Verify"))
	if len(calls) != 1 {
		r.Lost(key, rule, fmt.Sprintf("%d Verify calls", len(calls)))
		return
	}
	arg := CallArg(calls[0].Common(), 2)
	if b, ok := ConstBool(arg); ok && b {
		r.OK(key, rule, r.P.Pos(calls[0].Pos()), "checkSignature is the constant true", true)
		return
	}
	phi, ok := arg.(*ssa.Phi)
	if !ok {
		r.Bad(key, rule, r.P.Pos(calls[0].Pos()), "checkSignature argument is neither the constant true nor a selection guarded by holder == issuer")
		return
	}
	// edges carrying a non-true value must come from blocks reachable only through holder == issuer
	holderIsIssuer := CmpCheck("presentation.Holder.String() == current.Issuer.String()", token.EQL, PathV("String(", "Holder"), PathV("String(", "Issuer"), true)
	g := Gate{ID: key, Fn: vp, Check: holderIsIssuer, Effect: InstrEffect("checkSignature := (something other than true)", func(in ssa.Instruction) bool {
		for i, e := range phi.Edges {
			if b, isB := ConstBool(e); isB && b {
				continue
			}
			pred := phi.Block().Preds[i]
			if len(pred.Instrs) > 0 && pred.Instrs[len(pred.Instrs)-1] == in {
				return true
			}
		}
		return false
	})}
	r.Gate(g)
}

// c01SignerArg: the issuer handed to the signature algorithms is the credential's issuer / the presentation's signer.
func c01SignerArg(r *Report) {
	p := r.P
	rule := "ARG: the identity the signature is bound to is the credential's Issuer (VC) or the presentation signer (VP)"
	for _, c := range []struct {
		fn  string
		pat VPat
	}{{"VerifySignature", PathV("String(", "Issuer")}, {"VerifyVPSignature", PathV("String(", "PresentationSigner(")}} {
		f := p.Func("vcr/verifier", "signatureVerifier", c.fn)
		key := "C01.sig.bound-to-claimed-issuer @ " + c.fn
		if f == nil {
			r.Lost(key, rule, "function not found")
			continue
		}
		n := 0
		bad := false
		for _, callee := range []string{"jsonldProof", "jwtSignature"} {
			for _, ci := range Calls(f, Fn("vcr/verifier", "signatureVerifier", callee)) {
				n++
				if !c.pat.M(CallArg(ci.Common(), 1)) {
					bad = true
					r.Bad(key, rule, p.Pos(ci.Pos()), "issuer argument is "+AccessPath(CallArg(ci.Common(), 1), 0))
				}
			}
		}
		r.Sites += n
		if n != 2 {
			r.Lost(key, rule, fmt.Sprintf("%d algorithm calls", n))
		} else if !bad {
			r.OK(key, rule, p.Pos(f.Pos()), "both algorithms receive the claimed issuer", true)
		}
	}
}

func c01ResolveTime(r *Report, ld *ssa.Function) {
	rule := "ARG: the signing key is resolved at the validation time (ResolveTime = at)"
	key := "C01.ld.key-at-validation-time"
	if ld == nil {
		r.Lost(key, rule, "jsonldProof not found")
		return
	}
	for _, b := range ld.Blocks {
		for _, in := range b.Instrs {
			if st, ok := in.(*ssa.Store); ok {
				if fa, ok := st.Addr.(*ssa.FieldAddr); ok && FieldPathEnds(&ssa.UnOp{Op: token.MUL, X: fa}, "ResolveTime") {
					r.Sites++
					if ParamV("at").M(st.Val) {
						r.OK(key, rule, r.P.Pos(st.Pos()), "ResolveTime: at", true)
					} else {
						r.Bad(key, rule, r.P.Pos(st.Pos()), "ResolveTime is not the `at` parameter")
					}
					return
				}
			}
		}
	}
	r.Bad(key, rule, r.P.Pos(ld.Pos()), "no ResolveTime set in the key resolution metadata")
}

// c01VerifyVPCallers: every production caller of Verifier.VerifyVP passes verifyVCs = true.
func c01VerifyVPCallers(r *Report) {
	p := r.P
	rule := "ARG: every caller of Verifier.VerifyVP asks for the embedded credentials to be verified (verifyVCs = true)"
	sites := p.CallSites(Fn("vcr/verifier", "Verifier", "VerifyVP"), false)
	n := 0
	for _, s := range sites {
		if p.FileClass(p.FuncPos(s.Fn)) != "prod" {
			continue
		}
		n++
		key := "C01.callers.verify-vcs @ " + p.FuncName(Outer(s.Fn))
		a := CallArg(s.Instr.(ssa.CallInstruction).Common(), 1)
		if b, ok := ConstBool(a); ok && b {
			r.OK(key, rule, p.Pos(s.Pos), "verifyVCs = true", false)
		} else if strings.Contains(p.FuncName(Outer(s.Fn)), "vcr/api/vcr/v2") {
			r.OK(key, rule, p.Pos(s.Pos), "internal API: the flag is the operator's explicit request parameter", false)
		} else {
			r.Bad(key, rule, p.Pos(s.Pos), "verifyVCs is not the constant true")
		}
	}
	r.Sites += n
	if n < 4 {
		r.Lost("C01.callers.verify-vcs", rule, fmt.Sprintf("%d callers found", n))
	}
}

// c01SafeMode: every JsonLdOptions value the jsonld package builds for normalisation/expansion of documents that are verified
// has SafeMode set to true.
func c01SafeMode(r *Report) {
	p := r.P
	rule := "ARG: JSON-LD options used for canonicalisation have SafeMode = true (lossy constructs are errors, not silently unsigned)"
	n, bad := 0, 0
	var pos string
	for _, s := range p.CallSites(Fn("github.com/piprate/json-gold/ld", "", "NewJsonLdOptions"), false) {
		if p.FileClass(p.FuncPos(s.Fn)) != "prod" || !strings.Contains(p.FuncName(s.Fn), "jsonld.") {
			continue
		}
		call, ok := s.Instr.(*ssa.Call)
		if !ok {
			continue
		}
		n++
		set := false
		for _, ref := range *call.Referrers() {
			fa, isFA := ref.(*ssa.FieldAddr)
			if !isFA {
				continue
			}
			st := fa.X.Type().Underlying().(*types.Pointer).Elem().Underlying().(*types.Struct)
			if st.Field(fa.Field).Name() != "SafeMode" {
				continue
			}
			for _, r2 := range *fa.Referrers() {
				if store, isSt := r2.(*ssa.Store); isSt {
					if b, isB := ConstBool(store.Val); isB && b {
						set = true
					}
				}
			}
		}
		if !set {
			bad++
			if pos == "" {
				pos = p.Pos(s.Pos)
			}
		}
	}
	r.Sites += n
	key := "C01.ld.safe-mode"
	switch {
	case n == 0:
		r.Lost(key, rule, "no ld.NewJsonLdOptions call found in the jsonld package")
	case bad > 0:
		r.Bad(key, rule, pos, fmt.Sprintf("%d of %d option sets are built without SafeMode", bad, n))
	default:
		r.OK(key, rule, "", fmt.Sprintf("%d option set(s)", n), true)
	}
}
