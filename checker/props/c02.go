package props

import (
	"fmt"
	"go/token"
	"go/types"
	"reflect"
	"sort"
	"strings"

	"golang.org/x/tools/go/ssa"

	. "verifcheck/an"
)

func init() { Registry["C02"] = c02 }

func verifyVPCheck(p *Prog) Check {
	c := ErrCheck(Fn("vcr/verifier", "Verifier", "VerifyVP"))
	vcs := ConstBoolArg(1, true, "VerifyVP is not called with verifyVCs = true: embedded credentials would not be verified")
	c.ArgOK = func(ci ssa.CallInstruction) string {
		if msg := vcs(ci); msg != "" {
			return msg
		}
		if a := CallArg(ci.Common(), 3); a == nil || !IsNilConst(a) {
			return "VerifyVP is not called with validAt = nil (verification at the current time): a presentation-supplied time would decide its own validity"
		}
		return ""
	}
	return c
}

func c02(r *Report) {
	defer c02Seed7(r)
	defer c02Seed5(r)
	defer c02Seed6(r)
	p := r.P
	const iam = "auth/api/iam"
	r.Explanation = "Static decision of the structural conditions for access-token issuance and introspection: (1) the access-token store is written only in createAccessToken, which is called only from the two token-endpoint flows; (2) in the service-to-service flow the call is reachable only through envelope/submission parsing, and — for each presentation — max-validity, signer==subject, audience, nonce-not-seen and VerifyVP(verifyVCs=true), plus definition lookup for the scope and PEX fulfilment; in the authorization-code flow only through a burn-read of the code, client-id equality, PKCE and DPoP parsing; (3) an authorization code is minted only in the response-submission handler after state lookup, tenant equality, nonce, signer, audience, VerifyVP, fulfilment, and all definitions fulfilled; (4) each validator's own success return is gated by its comparison; (5) introspection reports active only through store lookup and non-expiry, builds the response from the stored token's fields, and the reserved-claim list guarding credential-derived claims covers every named response field."
	r.NotDecided = []string{"what the verifier and the Presentation Exchange engine accept (C01/C12)", "value-level equality of introspected claims beyond field provenance", "atomicity of single-use stores (C05)", "the zero-presentation path of the per-presentation loops is closed by PresentationSubmission.Validate's empty-envelope gate (checked under C12)"}
	r.Assumptions = []string{"the generated MarshalJSON of ExtendedTokenIntrospectionResponse writes AdditionalProperties after the named fields (checked: the range over AdditionalProperties follows the named-field writes)", "storage.SessionStore.Get returns ErrNotFound for absent/expired keys"}

	create := Fn(iam, "Wrapper", "createAccessToken")
	// --- (1) ownership
	r.Own(OwnSpec{ID: "C02.own.token-store-put", Op: "accessTokenServerStore().Put", Sites: p.CallSites(StoreOp("accessTokenServerStore", "Put"), true), Min: 1,
		Owners: map[string]string{"(auth/api/iam.Wrapper).createAccessToken": "the only issuer of access tokens"}})
	r.Own(OwnSpec{ID: "C02.own.createAccessToken", Op: "call createAccessToken", Sites: p.CallSites(create, true), Min: 2,
		Owners: map[string]string{"(auth/api/iam.Wrapper).handleS2SAccessTokenRequest": "vp_token bearer flow", "(auth/api/iam.Wrapper).handleAccessTokenRequest": "authorization-code flow"}})
	r.Own(OwnSpec{ID: "C02.own.code-put", Op: "oauthCodeStore().Put (mint authorization code)", Sites: p.CallSites(StoreOp("oauthCodeStore", "Put"), true), Min: 1,
		Owners: map[string]string{"(auth/api/iam.Wrapper).handleAuthorizeResponseSubmission": "after all OpenID4VP flows are fulfilled"}})
	r.Own(OwnSpec{ID: "C02.own.s2s-flow", Op: "call handleS2SAccessTokenRequest", Sites: p.CallSites(Fn(iam, "Wrapper", "handleS2SAccessTokenRequest"), true), Min: 1,
		Owners: map[string]string{"(auth/api/iam.Wrapper).HandleTokenRequest": "token endpoint"}})
	r.Own(OwnSpec{ID: "C02.own.code-flow", Op: "call handleAccessTokenRequest", Sites: p.CallSites(Fn(iam, "Wrapper", "handleAccessTokenRequest"), true), Min: 1,
		Owners: map[string]string{"(auth/api/iam.Wrapper).HandleTokenRequest": "token endpoint"}})

	// --- (2a) s2s flow
	s2s := p.Func(iam, "Wrapper", "handleS2SAccessTokenRequest")
	issue := CallEffect(create)
	r.Gate(Gate{ID: "C02.s2s.envelope", Fn: s2s, Effect: issue, Check: ErrCheck(Fn("vcr/pe", "", "ParseEnvelope"))})
	// an assertion without presentations proves nothing (every later check is a loop over the presentations)
	r.Gate(Gate{ID: "C02.s2s.at-least-one-presentation", Fn: s2s, Effect: issue, Check: CmpCheck("len(pexEnvelope.Presentations) == 0 is false", token.EQL, LenV(FieldV("Envelope", "Presentations")), IntV(0), false)})
	// every presentation definition the scope requires is fulfilled (not just the one the client's submission names)
	r.Gate(Gate{ID: "C02.s2s.every-required-definition-fulfilled", Fn: s2s, Effect: issue, ForEach: true, Check: CallCheck(Fn(iam, "PEXConsumer", "isFulfilled"), -1, IsTrue)})
	c02NonceRetention(r)
	// v1 (RFC003) JWT bearer grant: the key that signed the grant (kid) is a key of the issuer (iss)
	vi := p.Func("auth/services/oauth", "authzServer", "validateIssuer")
	kidIsIss := CallCheck(Fn("github.com/nuts-foundation/go-did/did", "DID", "Equals"), -1, IsTrue)
	kidIsIss.Desc = "GetDIDFromURL(kid).Equals(requester)"
	kidIsIss.Filter = func(ci ssa.CallInstruction) bool {
		return OriginV(CallV(Fn("vdr/resolver", "", "GetDIDFromURL"), 0)).M(CallArg(ci.Common(), -1)) || CallV(Fn("vdr/resolver", "", "GetDIDFromURL"), 0).M(CallArg(ci.Common(), -1))
	}
	r.Gate(Gate{ID: "C02.v1.signing-key-is-the-issuers", Fn: vi, Effect: SuccessReturn(), Check: kidIsIss})
	r.ArgIs("C02.v1.signing-key-is-the-issuers.kid-of-the-token", vi, Fn("vdr/resolver", "", "GetDIDFromURL"), 0, FieldV("validationContext", "kid"), 1)
	r.Gate(Gate{ID: "C02.s2s.submission", Fn: s2s, Effect: issue, Check: ErrCheck(Fn("vcr/pe", "", "ParsePresentationSubmission"))})
	r.Gate(Gate{ID: "C02.s2s.max-validity", Fn: s2s, Effect: issue, ForEach: true, Check: ErrCheck(Fn(iam, "", "validateS2SPresentationMaxValidity"))})
	r.Gate(Gate{ID: "C02.s2s.signer-is-subject", Fn: s2s, Effect: issue, ForEach: true, Check: ErrCheck(Fn(iam, "", "validatePresentationSigner"))})
	r.Gate(Gate{ID: "C02.s2s.audience", Fn: s2s, Effect: issue, ForEach: true, Check: ErrCheck(Fn(iam, "Wrapper", "validatePresentationAudience"))})
	r.Gate(Gate{ID: "C02.s2s.definition-for-scope", Fn: s2s, Effect: issue, Check: ErrCheck(Fn(iam, "Wrapper", "presentationDefinitionForScope"))})
	c02PolicyScope(r)
	c02SubjectCarried(r, "C02.s2s.same-subject-across-presentations", s2s)
	c02SubjectCarried(r, "C02.mint.same-subject-across-presentations", p.Func(iam, "Wrapper", "handleAuthorizeResponseSubmission"))
	c02SessionReadOnly(r, p.Func(iam, "Wrapper", "handleAccessTokenRequest"))
	r.Gate(Gate{ID: "C02.s2s.fulfil", Fn: s2s, Effect: issue, Check: ErrCheck(Fn(iam, "PEXConsumer", "fulfill"))})
	r.Gate(Gate{ID: "C02.s2s.nonce", Fn: s2s, Effect: issue, ForEach: true, Check: ErrCheck(Fn(iam, "Wrapper", "validateS2SPresentationNonce"))})
	r.Gate(Gate{ID: "C02.s2s.dpop", Fn: s2s, Effect: issue, Check: ErrCheck(Fn(iam, "", "dpopFromRequest"))})
	r.Gate(Gate{ID: "C02.s2s.verify-vp", Fn: s2s, Effect: issue, ForEach: true, Check: verifyVPCheck(p)})
	// the consumer given to createAccessToken is the one that was fulfilled, built from the scope's definitions
	c02S2SConsumerProvenance(r, s2s)

	// --- (2b) authorization-code flow
	code := p.Func(iam, "Wrapper", "handleAccessTokenRequest")
	r.Gate(Gate{ID: "C02.code.burn-read", Fn: code, Effect: issue, Check: ErrCheck(StoreOp("oauthCodeStore", "GetAndDelete"))})
	r.Gate(Gate{ID: "C02.code.client-id", Fn: code, Effect: issue, Check: CmpCheck("oauthSession.ClientID == *request.ClientId", token.EQL, FieldV("OAuthSession", "ClientID"), FieldV("", "ClientId"), true)})
	r.Gate(Gate{ID: "C02.code.pkce", Fn: code, Effect: issue, Check: CallCheck(Fn(iam, "", "validatePKCEParams"), -1, IsTrue)})
	r.Gate(Gate{ID: "C02.code.dpop", Fn: code, Effect: issue, Check: ErrCheck(Fn(iam, "", "dpopFromRequest"))})
	c02CodeFlowProvenance(r, code)

	// --- (3) minting the authorization code
	sub := p.Func(iam, "Wrapper", "handleAuthorizeResponseSubmission")
	mint := CallEffect(StoreOp("oauthCodeStore", "Put"))
	r.Gate(Gate{ID: "C02.mint.envelope", Fn: sub, Effect: mint, Check: ErrCheck(Fn("vcr/pe", "", "ParseEnvelope"))})
	r.Gate(Gate{ID: "C02.mint.nonempty-envelope", Fn: sub, Effect: mint, Check: CmpCheck("len(Presentations) == 0 is false", token.EQL, LenV(FieldV("Envelope", "Presentations")), IntV(0), false)})
	r.Gate(Gate{ID: "C02.mint.session", Fn: sub, Effect: mint, Check: ErrCheck(StoreOp("oauthClientStateStore", "Get"))})
	r.Gate(Gate{ID: "C02.mint.tenant", Fn: sub, Effect: mint, Check: CmpCheck("request.SubjectID == *session.OwnSubject", token.EQL, FieldV("", "SubjectID"), FieldV("OAuthSession", "OwnSubject"), true)})
	r.Gate(Gate{ID: "C02.mint.nonce", Fn: sub, Effect: mint, Check: ErrCheck(Fn(iam, "Wrapper", "validatePresentationNonce"))})
	r.Gate(Gate{ID: "C02.mint.submission", Fn: sub, Effect: mint, Check: ErrCheck(Fn("vcr/pe", "", "ParsePresentationSubmission"))})
	r.Gate(Gate{ID: "C02.mint.signer-is-subject", Fn: sub, Effect: mint, ForEach: true, Check: ErrCheck(Fn(iam, "", "validatePresentationSigner"))})
	r.Gate(Gate{ID: "C02.mint.audience", Fn: sub, Effect: mint, ForEach: true, Check: ErrCheck(Fn(iam, "Wrapper", "validatePresentationAudience"))})
	r.Gate(Gate{ID: "C02.mint.verify-vp", Fn: sub, Effect: mint, ForEach: true, Check: verifyVPCheck(p)})
	r.Gate(Gate{ID: "C02.mint.fulfil", Fn: sub, Effect: mint, Check: ErrCheck(Fn(iam, "PEXConsumer", "fulfill"))})
	r.Gate(Gate{ID: "C02.mint.all-fulfilled", Fn: sub, Effect: mint, Check: CallCheck(Fn(iam, "PEXConsumer", "next"), 0, ErrNil), Note: "next() returns nil when nothing is left"})

	// --- (4) inner validators
	mv := p.Func(iam, "", "validateS2SPresentationMaxValidity")
	r.Gate(Gate{ID: "C02.inner.validity.created-present", Fn: mv, Effect: SuccessReturn(), Check: CmpCheck("created == nil is false", token.EQL, CallV(Fn("vcr/credential", "", "PresentationIssuanceDate"), -1), NilV(), false)})
	r.Gate(Gate{ID: "C02.inner.validity.expires-present", Fn: mv, Effect: SuccessReturn(), Check: CmpCheck("expires == nil is false", token.EQL, CallV(Fn("vcr/credential", "", "PresentationExpirationDate"), -1), NilV(), false)})
	r.Gate(Gate{ID: "C02.inner.validity.window", Fn: mv, Effect: SuccessReturn(), Check: CmpCheck("expires.Sub(created) <= s2sMaxPresentationValidity", token.LEQ, CallV(Fn("std:time", "Time", "Sub"), -1), p.ConstV(iam, "s2sMaxPresentationValidity"), true)})
	c02MaxValidityConst(r)
	c02Audit3(r)
	au := p.Func(iam, "Wrapper", "validatePresentationAudience")
	r.Gate(Gate{ID: "C02.inner.audience.equals-own-url", Fn: au, Effect: SuccessReturn(), Check: CmpCheck("aud == expected.String()", token.EQL, AnyV(), CallV(Fn("std:net/url", "URL", "String"), -1), true)})
	sg := p.Func(iam, "", "validatePresentationSigner")
	r.Gate(Gate{ID: "C02.inner.signer.subject-check", Fn: sg, Effect: SuccessReturn(), Check: ErrCheck(Fn("vcr/credential", "", "PresenterIsCredentialSubject")),
		Alt: []Check{ErrCheck(Fn("vcr/credential", "", "PresentationSigner"))}})
	r.Gate(Gate{ID: "C02.inner.signer.subject-nonnil", Fn: sg, Effect: SuccessReturn(), Check: CallCheck(Fn("vcr/credential", "", "PresenterIsCredentialSubject"), 0, NonNil),
		Alt: []Check{ErrCheck(Fn("vcr/credential", "", "PresentationSigner"))}})
	r.Gate(Gate{ID: "C02.inner.signer.same-subject", Fn: sg, Effect: SuccessReturn(), Check: CallCheck(Fn("github.com/nuts-foundation/go-did/did", "DID", "Equals"), -1, IsTrue),
		// no exemption for a presentation without credentials: its signer is compared as well (fix: the empty-VP branch
		// returned the signer unchecked, which re-based the expected subject for the following presentations)
		Alt: []Check{CallCheck(Fn("github.com/nuts-foundation/go-did/did", "DID", "Empty"), -1, IsTrue)}})
	pk := p.Func(iam, "", "validatePKCEParams")
	r.Gate(Gate{ID: "C02.inner.pkce.s256-only", Fn: pk, Effect: ReturnsBool(0, true), Check: CmpCheck("ChallengeMethod == \"S256\"", token.EQL, FieldV("PKCEParams", "ChallengeMethod"), StrV("S256"), true)})
	r.Gate(Gate{ID: "C02.inner.pkce.challenge-equals", Fn: pk, Effect: ReturnsBool(0, true), Check: CmpCheck("challenge == params.Challenge", token.EQL, AnyV(), FieldV("PKCEParams", "Challenge"), true)})
	fu := p.Func(iam, "PEXConsumer", "fulfill")
	r.Gate(Gate{ID: "C02.inner.fulfil.definition-required", Fn: fu, Effect: SuccessReturn(), Check: CmpCheck("definition == nil is false", token.EQL, TypeNamedV("PresentationDefinition"), NilV(), false)})
	r.Gate(Gate{ID: "C02.inner.fulfil.not-yet-fulfilled", Fn: fu, Effect: SuccessReturn(), Check: CallCheck(Fn(iam, "PEXConsumer", "isFulfilled"), -1, IsFalse)})
	r.Gate(Gate{ID: "C02.inner.fulfil.submission-validates", Fn: fu, Effect: SuccessReturn(), Check: ErrCheck(Fn("vcr/pe", "PresentationSubmission", "Validate"))})
	nn := p.Func(iam, "Wrapper", "validateS2SPresentationNonce")
	r.Gate(Gate{ID: "C02.inner.s2s-nonce.not-seen", Fn: nn, Effect: SuccessReturn(), Check: CallCheck(Fn("std:errors", "", "Is"), -1, IsTrue)})
	r.Gate(Gate{ID: "C02.inner.s2s-nonce.present", Fn: nn, Effect: SuccessReturn(), Check: CmpCheck("nonce == \"\" is false", token.EQL, CallV(Fn(iam, "", "extractNonce"), 0), StrV(""), false)})
	r.Gate(Gate{ID: "C02.inner.s2s-nonce.recorded", Fn: nn, Effect: SuccessReturn(), Check: ErrCheck(StoreOp("s2sNonceStore", "Put"))})
	vn := p.Func(iam, "Wrapper", "validatePresentationNonce")
	r.Gate(Gate{ID: "C02.inner.nonce.burn-read", Fn: vn, Effect: SuccessReturn(), Check: ErrCheck(StoreOp("oauthNonceStore", "GetAndDelete"))})
	r.Gate(Gate{ID: "C02.inner.nonce.state-equals", Fn: vn, Effect: SuccessReturn(), Check: CmpCheck("state == stateFromNonce", token.EQL, ParamV("state"), AnyV(), true)})
	r.Gate(Gate{ID: "C02.inner.nonce.no-errors", Fn: vn, Effect: SuccessReturn(), Check: CmpCheck("len(errs) > 0 is false", token.LEQ, LenV(AnyV()), IntV(0), true)})

	// --- (5) introspection
	in := p.Func(iam, "Wrapper", "introspectAccessToken")
	active := ReturnsNonNil(0)
	r.Gate(Gate{ID: "C02.introspect.known-token", Fn: in, Effect: active, Check: ErrCheck(StoreOp("accessTokenServerStore", "Get"))})
	r.Gate(Gate{ID: "C02.introspect.not-expired", Fn: in, Effect: active, Check: TimeOrder("token.Expiration is before time.Now() is false", FieldV("AccessToken", "Expiration"), NowV(), IsFalse)})
	c02IntrospectLiteral(r, in)
	c02Reserved(r, in)
	c02MarshalOrder(r)
}

// c02S2SConsumerProvenance: createAccessToken receives *pexConsumer where pexConsumer = newPEXConsumer(result of presentationDefinitionForScope)
// and fulfill is called on that same consumer.
func c02S2SConsumerProvenance(r *Report, fn *ssa.Function) {
	p := r.P
	rule := "ARG: the PEX state handed to createAccessToken is the consumer built from the scope's definitions and fulfilled by this request; client id and scope are the request's"
	key := "C02.s2s.consumer-provenance"
	if fn == nil {
		r.Lost(key, rule, "function not found")
		return
	}
	const iam = "auth/api/iam"
	creates := Calls(fn, Fn(iam, "Wrapper", "createAccessToken"))
	news := Calls(fn, Fn(iam, "", "newPEXConsumer"))
	fulfils := Calls(fn, Fn(iam, "PEXConsumer", "fulfill"))
	if len(creates) != 1 || len(news) != 1 || len(fulfils) != 1 {
		r.Lost(key, rule, fmt.Sprintf("createAccessToken=%d newPEXConsumer=%d fulfill=%d call sites", len(creates), len(news), len(fulfils)))
		return
	}
	r.Sites += 3
	var problems []string
	newCall := news[0].(*ssa.Call)
	if !CallV(Fn(iam, "Wrapper", "presentationDefinitionForScope"), 0).M(newCall.Call.Args[0]) {
		problems = append(problems, "newPEXConsumer is not given the result of presentationDefinitionForScope")
	}
	// fulfill receiver is newCall's result
	if StripConv(fulfils[0].Common().Args[0]) != ssa.Value(newCall) {
		problems = append(problems, "fulfill is not called on the consumer created by newPEXConsumer")
	}
	// createAccessToken arg 4 (pexState) is a load of the same pointer
	pex := CallArg(creates[0].Common(), 4)
	if u, ok := pex.(*ssa.UnOp); !ok || u.X != ssa.Value(newCall) {
		problems = append(problems, "createAccessToken's PEX state is not the fulfilled consumer")
	}
	if !ParamV("clientID").M(CallArg(creates[0].Common(), 1)) {
		problems = append(problems, "createAccessToken's client id is not the request's client_id")
	}
	if !ParamV("scope").M(CallArg(creates[0].Common(), 3)) {
		problems = append(problems, "createAccessToken's scope is not the requested scope")
	}
	// the scope used for the definition lookup is the same parameter
	for _, ci := range Calls(fn, Fn(iam, "Wrapper", "presentationDefinitionForScope")) {
		if !ParamV("scope").M(CallArg(ci.Common(), 1)) {
			problems = append(problems, "presentationDefinitionForScope is not called with the requested scope")
		}
	}
	if len(problems) > 0 {
		r.Bad(key, rule, p.Pos(creates[0].Pos()), strings.Join(problems, "; "))
		return
	}
	r.OK(key, rule, p.Pos(creates[0].Pos()), "consumer, client id and scope provenance hold", true)
}

func c02CodeFlowProvenance(r *Report, fn *ssa.Function) {
	p := r.P
	rule := "ARG: in the code flow createAccessToken receives client id, scope and PEX state from the session loaded by the burn-read of the code"
	key := "C02.code.session-provenance"
	if fn == nil {
		r.Lost(key, rule, "function not found")
		return
	}
	creates := Calls(fn, Fn("auth/api/iam", "Wrapper", "createAccessToken"))
	gets := Calls(fn, StoreOp("oauthCodeStore", "GetAndDelete"))
	if len(creates) != 1 || len(gets) != 1 {
		r.Lost(key, rule, "call sites not found")
		return
	}
	r.Sites += 2
	// the session variable: second argument of GetAndDelete (pointer to local alloc)
	sess := StripConv(gets[0].Common().Args[1])
	var problems []string
	fromSession := func(v ssa.Value, field string) bool {
		// v is a load (possibly double) of &sess.field
		for i := 0; i < 3; i++ {
			u, ok := v.(*ssa.UnOp)
			if !ok {
				return false
			}
			if fa, ok := u.X.(*ssa.FieldAddr); ok {
				return fa.X == sess && FieldPathEnds(u, field)
			}
			v = u.X
		}
		return false
	}
	if !fromSession(CallArg(creates[0].Common(), 1), "ClientID") {
		problems = append(problems, "client id is not oauthSession.ClientID")
	}
	if !fromSession(CallArg(creates[0].Common(), 3), "Scope") {
		problems = append(problems, "scope is not oauthSession.Scope")
	}
	if !fromSession(CallArg(creates[0].Common(), 4), "OpenID4VPVerifier") {
		problems = append(problems, "PEX state is not *oauthSession.OpenID4VPVerifier")
	}
	if len(problems) > 0 {
		r.Bad(key, rule, p.Pos(creates[0].Pos()), strings.Join(problems, "; "))
		return
	}
	r.OK(key, rule, p.Pos(creates[0].Pos()), "all three arguments are loads from the burned session", true)
}

func c02MaxValidityConst(r *Report) {
	rule := "TABLE: s2sMaxPresentationValidity is a positive duration of at most 10s"
	v, ok := r.P.ConstValue("auth/api/iam", "s2sMaxPresentationValidity")
	r.Sites++
	if !ok {
		r.Lost("C02.inner.validity.const", rule, "constant not found")
		return
	}
	var n int64
	fmt.Sscan(v, &n)
	if n <= 0 || n > 10_000_000_000 {
		r.Bad("C02.inner.validity.const", rule, "", "value = "+v+"ns")
		return
	}
	r.OK("C02.inner.validity.const", rule, "", v+"ns", false)
}

// c02IntrospectLiteral: the response literal sets Active to the constant true and fills issuer/client/scope/iat/exp from the stored token.
func c02IntrospectLiteral(r *Report, fn *ssa.Function) {
	p := r.P
	rule := "ARG: the introspection response is built from the stored token's fields (iss, client_id, scope, iat, exp, cnf from DPoP) with Active = true"
	key := "C02.introspect.fields-from-token"
	if fn == nil {
		r.Lost(key, rule, "function not found")
		return
	}
	want := map[string]string{"Iss": "Issuer", "ClientId": "ClientId", "Scope": "Scope", "Vps": "VPToken", "PresentationDefinitions": "PresentationDefinitions", "PresentationSubmissions": "PresentationSubmissions"}
	got := map[string]bool{}
	activeTrue := false
	var problems []string
	for _, b := range fn.Blocks {
		for _, in := range b.Instrs {
			st, ok := in.(*ssa.Store)
			if !ok {
				continue
			}
			fa, ok := st.Addr.(*ssa.FieldAddr)
			if !ok {
				continue
			}
			n := NamedOf(fa.X.Type())
			if n == nil || n.Obj().Name() != "ExtendedTokenIntrospectionResponse" {
				continue
			}
			fname := n.Underlying().(*types.Struct).Field(fa.Field).Name()
			r.Sites++
			if fname == "Active" {
				if bv, ok := ConstBool(st.Val); ok && bv {
					activeTrue = true
				} else {
					problems = append(problems, "Active is not the constant true")
				}
				continue
			}
			if src, ok := want[fname]; ok {
				// value must be the address of token.<src>
				if tfa, ok := StripConv(st.Val).(*ssa.FieldAddr); ok {
					tn := NamedOf(tfa.X.Type())
					if tn != nil && tn.Obj().Name() == "AccessToken" && tn.Underlying().(*types.Struct).Field(tfa.Field).Name() == src {
						got[fname] = true
						continue
					}
				}
				problems = append(problems, fmt.Sprintf("response.%s is not &token.%s", fname, src))
			}
		}
	}
	for f := range want {
		if !got[f] {
			problems = append(problems, "response."+f+" not set from the token")
		}
	}
	if !activeTrue {
		problems = append(problems, "Active: true not found")
	}
	sort.Strings(problems)
	problems = uniq(problems)
	if len(problems) > 0 {
		r.Bad(key, rule, p.Pos(fn.Pos()), strings.Join(problems, "; "))
		return
	}
	r.OK(key, rule, p.Pos(fn.Pos()), fmt.Sprintf("%d fields traced to the stored token", len(got)), true)
}

func uniq(s []string) []string {
	var out []string
	for i, x := range s {
		if i == 0 || x != s[i-1] {
			out = append(out, x)
		}
	}
	return out
}

// c02Reserved: the reserved-name list ⊇ JSON names of every named response field + "sub"; and success with
// AdditionalProperties set is gated by the membership test.
func c02Reserved(r *Report, fn *ssa.Function) {
	p := r.P
	rule := "TABLE: the reserved-claim list guarding credential-derived claims ⊇ the JSON names of every named field of the introspection response (plus sub)"
	key := "C02.introspect.reserved"
	if fn == nil {
		r.Lost(key, rule, "function not found")
		return
	}
	pk := p.Pkg("auth/api/iam")
	tn, _ := pk.Types.Scope().Lookup("ExtendedTokenIntrospectionResponse").(*types.TypeName)
	if tn == nil {
		r.Lost(key, rule, "response type not found")
		return
	}
	st := tn.Type().Underlying().(*types.Struct)
	var fields []string
	for i := 0; i < st.NumFields(); i++ {
		tag := reflect.StructTag(st.Tag(i)).Get("json")
		name := strings.Split(tag, ",")[0]
		if name == "" || name == "-" {
			continue
		}
		fields = append(fields, name)
	}
	fields = append(fields, "sub")
	// reserved list: string constants stored into a slice literal in fn that is ranged over with a map lookup on InputDescriptorConstraintIdMap
	reserved := map[string]bool{}
	for _, b := range fn.Blocks {
		for _, in := range b.Instrs {
			if stv, ok := in.(*ssa.Store); ok {
				if _, isIdx := stv.Addr.(*ssa.IndexAddr); isIdx {
					if s, ok := ConstString(stv.Val); ok {
						reserved[s] = true
					}
				}
			}
		}
	}
	r.Sites += len(fields) + len(reserved)
	if len(reserved) < 3 {
		r.Lost(key, rule, "reserved list not recognised")
		return
	}
	var missing []string
	for _, f := range fields {
		if !reserved[f] {
			missing = append(missing, f)
		}
	}
	if len(missing) > 0 {
		r.Bad(key, rule, p.Pos(fn.Pos()), "response fields a credential-derived claim could override: "+strings.Join(missing, ", "))
		return
	}
	r.OK(key, rule, p.Pos(fn.Pos()), fmt.Sprintf("%d response fields, %d reserved names", len(fields), len(reserved)), true)
	// the assignment of AdditionalProperties is gated by the lookup being negative for each reserved name
	r.Gate(Gate{ID: "C02.introspect.reserved-gate", Fn: fn, ForEach: true,
		Effect: InstrEffect("store to response.AdditionalProperties", func(in ssa.Instruction) bool {
			stv, ok := in.(*ssa.Store)
			if !ok {
				return false
			}
			fa, ok := stv.Addr.(*ssa.FieldAddr)
			if !ok {
				return false
			}
			n := NamedOf(fa.X.Type())
			return n != nil && n.Obj().Name() == "ExtendedTokenIntrospectionResponse" && n.Underlying().(*types.Struct).Field(fa.Field).Name() == "AdditionalProperties"
		}),
		Check: Check{Desc: "reserved name not in the constraint map", Pass: IsFalse, Values: func(f *ssa.Function) []ssa.Value {
			var out []ssa.Value
			for _, b := range f.Blocks {
				for _, in := range b.Instrs {
					if lk, ok := in.(*ssa.Lookup); ok && lk.CommaOk {
						for _, ref := range *lk.Referrers() {
							if ex, ok := ref.(*ssa.Extract); ok && ex.Index == 1 {
								out = append(out, ex)
							}
						}
					}
				}
			}
			return out
		}}})
}

// c02MarshalOrder: in the generated MarshalJSON, the loop writing AdditionalProperties comes after all named-field writes
// (so additional properties win) — this is why the reserved list matters; if the order changes the assumption is void.
func c02MarshalOrder(r *Report) {
	p := r.P
	rule := "ORDER: generated MarshalJSON writes AdditionalProperties after the named fields (the reserved list is what prevents overriding)"
	fn := p.Func("auth/api/iam", "ExtendedTokenIntrospectionResponse", "MarshalJSON")
	key := "C02.introspect.marshal-order"
	if fn == nil {
		r.Lost(key, rule, "MarshalJSON not found")
		return
	}
	// find the Range over AdditionalProperties and all MapUpdate with constant keys
	var rng ssa.Instruction
	var updates []ssa.Instruction
	for _, b := range fn.Blocks {
		for _, in := range b.Instrs {
			switch x := in.(type) {
			case *ssa.Range:
				rng = x
			case *ssa.MapUpdate:
				if _, ok := ConstString(x.Key); ok {
					updates = append(updates, x)
				}
			}
		}
	}
	r.Sites += len(updates) + 1
	if rng == nil || len(updates) < 5 {
		r.Lost(key, rule, "range over AdditionalProperties / named-field writes not recognised")
		return
	}
	for _, u := range updates {
		if InstrDominates(rng, u) {
			r.Bad(key, rule, p.Pos(u.Pos()), "a named field is written after the additional properties loop")
			return
		}
	}
	r.OK(key, rule, p.Pos(fn.Pos()), fmt.Sprintf("%d named-field writes precede the additional-properties loop", len(updates)), false)
}

// c02PolicyScope: the presentation definitions demanded for a token request are the ones configured for exactly the
// requested scope string: the IAM wrapper hands the scope through verbatim and the local policy backend looks it up
// verbatim (no normalisation, splitting or fallback), failing when it is not configured.
func c02PolicyScope(r *Report) {
	p := r.P
	pds := p.Func("policy", "LocalPDP", "PresentationDefinitions")
	rule := "ARG: the policy backend looks the definitions up under exactly the requested scope string (every lookup in LocalPDP.mapping is keyed by the scope parameter itself)"
	key := "C02.policy.exact-scope"
	if pds == nil {
		r.Lost(key, rule, "LocalPDP.PresentationDefinitions not found")
		return
	}
	n := 0
	bad := ""
	for _, b := range pds.Blocks {
		for _, in := range b.Instrs {
			lk, ok := in.(*ssa.Lookup)
			if !ok || !FieldV("LocalPDP", "mapping").M(lk.X) {
				continue
			}
			n++
			if !ParamV("scope").M(lk.Index) {
				bad = "lookup keyed by " + AccessPath(lk.Index, 0) + " at " + p.Pos(lk.Pos())
			}
		}
	}
	r.Sites += n
	switch {
	case n == 0:
		r.Lost(key, rule, "no lookup in LocalPDP.mapping")
	case bad != "":
		r.Bad(key, rule, p.Pos(pds.Pos()), bad)
	default:
		r.OK(key, rule, p.Pos(pds.Pos()), fmt.Sprintf("%d lookup(s), keyed by the parameter", n), true)
	}
	r.Gate(Gate{ID: "C02.policy.unknown-scope-fails", Fn: pds, Effect: SuccessReturn(), Check: MapOK("mapping")})
	// the wrapper passes its scope parameter through
	pdfs := p.Func("auth/api/iam", "Wrapper", "presentationDefinitionForScope")
	rule2 := "ARG: presentationDefinitionForScope asks the policy backend for its own scope parameter and returns that answer"
	key2 := "C02.policy.scope-verbatim"
	if pdfs == nil {
		r.Lost(key2, rule2, "presentationDefinitionForScope not found")
		return
	}
	calls := Calls(pdfs, p.FnOrImpl("policy", "PDPBackend", "PresentationDefinitions"))
	r.Sites += len(calls)
	if len(calls) != 1 {
		r.Bad(key2, rule2, p.Pos(pdfs.Pos()), fmt.Sprintf("%d PresentationDefinitions calls", len(calls)))
		return
	}
	if !ParamV("scope").M(CallArg(calls[0].Common(), 1)) {
		r.Bad(key2, rule2, p.Pos(calls[0].Pos()), "scope argument is "+AccessPath(CallArg(calls[0].Common(), 1), 0))
		return
	}
	r.ReturnsOnly(key2+".result", pdfs, 0, true, p.FnOrImpl("policy", "PDPBackend", "PresentationDefinitions"))
	r.OK(key2, rule2, p.Pos(calls[0].Pos()), "scope parameter passed through", true)
}

// c02SubjectCarried: validatePresentationSigner compares each presentation's subject with the previous one's: the
// expected-subject argument is a variable that is assigned, inside the loop, from the call's own result.
func c02SubjectCarried(r *Report, id string, fn *ssa.Function) {
	rule := "ARG: the expected-subject argument of validatePresentationSigner is carried over from the previous presentation (assigned in the loop from the call's result)"
	if fn == nil {
		r.Lost(id, rule, "function not found")
		return
	}
	key := id + " @ " + r.P.FuncName(fn)
	calls := r.P.CallsNear(fn, Fn("auth/api/iam", "", "validatePresentationSigner"))
	r.Sites += len(calls)
	if len(calls) != 1 {
		r.Lost(key, rule, fmt.Sprintf("%d validatePresentationSigner calls", len(calls)))
		return
	}
	call := calls[0].(*ssa.Call)
	fn = call.Parent() // the loop may have moved into a helper together with the call
	l := InnermostLoop(Loops(fn), call.Block())
	if l == nil {
		r.Bad(key, rule, r.P.Pos(call.Pos()), "the signer check is not in a loop over the presentations")
		return
	}
	arg := StripConv(CallArg(call.Common(), 1))
	fromCall := func(v ssa.Value) bool {
		v = StripConv(v)
		if u, ok := v.(*ssa.UnOp); ok && u.Op == token.MUL {
			v = StripConv(u.X)
		}
		ex, ok := v.(*ssa.Extract)
		return ok && ex.Tuple == ssa.Value(call) && ex.Index == 0
	}
	if phi, ok := arg.(*ssa.Phi); ok && l.Body[phi.Block()] {
		for _, e := range phi.Edges {
			if fromCall(e) {
				r.OK(key, rule, r.P.Pos(call.Pos()), "loop-carried (phi of the zero value and the previous result)", true)
				return
			}
		}
		r.Bad(key, rule, r.P.Pos(call.Pos()), "the loop-carried value never comes from the call's result: every presentation is compared with the empty DID, mixed subjects pass")
		return
	}
	ld, ok := arg.(*ssa.UnOp)
	if !ok || ld.Op != token.MUL {
		r.Bad(key, rule, r.P.Pos(call.Pos()), "the expected subject is "+AccessPath(arg, 0)+", not a variable carried across iterations")
		return
	}
	cell, ok := ld.X.(*ssa.Alloc)
	if !ok {
		r.Bad(key, rule, r.P.Pos(call.Pos()), "the expected subject is not a local variable")
		return
	}
	carried := false
	for _, ref := range *cell.Referrers() {
		st, ok := ref.(*ssa.Store)
		if !ok || st.Addr != ssa.Value(cell) || !l.Body[st.Block()] {
			continue
		}
		v := StripConv(st.Val)
		if u, ok := v.(*ssa.UnOp); ok && u.Op == token.MUL {
			v = StripConv(u.X)
		}
		if ex, ok := v.(*ssa.Extract); ok && ex.Tuple == ssa.Value(call) && ex.Index == 0 {
			carried = true
		}
	}
	if !carried {
		r.Bad(key, rule, r.P.Pos(call.Pos()), "the variable is never assigned from the call's result inside the loop: every presentation is compared with the empty DID, mixed subjects pass")
		return
	}
	r.OK(key, rule, r.P.Pos(call.Pos()), "loop-carried through a local variable", true)
}

// c02SessionReadOnly: in the code flow the session loaded by the burn-read is not modified before the token is created
// (client id, scope and PEX state are what was authorised, not what the redeeming request says).
func c02SessionReadOnly(r *Report, fn *ssa.Function) {
	rule := "OWN: handleAccessTokenRequest never assigns a field of the loaded OAuthSession"
	key := "C02.code.session-read-only"
	if fn == nil {
		r.Lost(key, rule, "handleAccessTokenRequest not found")
		return
	}
	n := 0
	for _, f := range WithAnons(fn) {
		for _, b := range f.Blocks {
			for _, in := range b.Instrs {
				st, ok := in.(*ssa.Store)
				if !ok {
					continue
				}
				fa, ok := st.Addr.(*ssa.FieldAddr)
				if !ok {
					continue
				}
				n++
				if nt := NamedOf(fa.X.Type()); nt != nil && nt.Obj().Name() == "OAuthSession" {
					r.Bad(key, rule, r.P.Pos(st.Pos()), "assigns OAuthSession."+AccessPath(fa, 0)+" = "+AccessPath(st.Val, 0))
					return
				}
			}
		}
	}
	r.Sites += n
	r.OK(key, rule, r.P.Pos(fn.Pos()), fmt.Sprintf("%d field stores examined, none into the session", n), true)
}

// c02NonceRetention: a used s2s nonce is remembered at least as long as the presentation that carried it is accepted: from
// creation - skew to expiry + skew, i.e. validity + 2 x skew (fix: it was validity + skew, so a JSON-LD presentation of a
// client whose clock runs ahead could be replayed after its nonce record expired).
func c02NonceRetention(r *Report) {
	p := r.P
	const iam = "auth/api/iam"
	rule := "TABLE: the TTL of the s2s nonce store is a constant >= s2sMaxPresentationValidity + 2*s2sMaxClockSkew"
	key := "C02.s2s.nonce-retention"
	num := func(name string) (int64, bool) {
		v, ok := p.ConstValue(iam, name)
		var n int64
		if ok {
			fmt.Sscan(v, &n)
		}
		return n, ok
	}
	val, ok1 := num("s2sMaxPresentationValidity")
	skew, ok2 := num("s2sMaxClockSkew")
	fn := p.Func(iam, "Wrapper", "s2sNonceStore")
	if !ok1 || !ok2 || fn == nil {
		r.Lost(key, rule, "constants or s2sNonceStore not found")
		return
	}
	calls := Calls(fn, p.FnOrImpl("storage", "SessionDatabase", "GetStore"))
	r.Sites += len(calls)
	if len(calls) != 1 {
		r.Lost(key, rule, fmt.Sprintf("%d GetStore calls in s2sNonceStore", len(calls)))
		return
	}
	ttl, isC := ConstInt(StripConv(CallArg(calls[0].Common(), 0)))
	if !isC || ttl < val+2*skew {
		r.Bad(key, rule, p.Pos(calls[0].Pos()), fmt.Sprintf("TTL is %s (%dns); needed >= %dns", AccessPath(CallArg(calls[0].Common(), 0), 0), ttl, val+2*skew))
		return
	}
	r.OK(key, rule, p.Pos(calls[0].Pos()), fmt.Sprintf("%dns >= %dns", ttl, val+2*skew), true)
}
