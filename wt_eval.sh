#!/bin/bash
# usage: wt_eval.sh <patch.diff> <tag> [prop ...]   — applies a patch to a scratch worktree of /repo HEAD (never /repo itself), runs the
# given property checks (default: all 20) against that worktree with evidence in a scratch dir, prints one line per alarmed check
# ("<tag> <prop> rc=<n> <keys>") or "<tag> SILENT", and removes the worktree. VCBIN selects the checker binary (default /verif/bin/verifcheck).
set -u
export GOFLAGS=-mod=mod GOPROXY=off GOSUMDB=off GOTOOLCHAIN=local; unset GOWORK
PATCH=$(realpath "$1"); TAG=$2; shift 2
PROPS=${@:-$(seq -f 'C%02g' 1 20)}
BIN=${VCBIN:-/verif/bin/verifcheck}
WT=/tmp/wte/$TAG; T=/tmp/wte/$TAG.ev
mkdir -p /tmp/wte; rm -rf "/tmp/wte/$TAG" "/tmp/wte/$TAG.ev"   # no `git worktree prune` here: it races with a parallel wt_eval that is just adding its worktree
git -C /repo worktree add -q --detach $WT HEAD || exit 2
if ! git -C $WT apply $PATCH 2>/dev/null; then echo "$TAG DOES-NOT-APPLY"; git -C /repo worktree remove --force $WT; exit 3; fi
alarm=0
for p in $PROPS; do
  ( mkdir -p $T/$p; cp /verif/known_findings.json $T/$p/
    for attempt in 1 2 3 4; do
      $BIN -prop $p -tier quick -repo $WT -verif $T/$p > $T/$p.out 2>&1; echo $? > $T/$p.rc
      if grep -q "without types\|\[load\]" $T/$p.out; then sleep 3; continue; fi
      break
    done ) &
  while [ $(jobs -r | wc -l) -ge ${WTE_PAR:-5} ]; do sleep 0.5; done
done
wait
for p in $PROPS; do
  rc=$(cat $T/$p.rc)
  if [ "$rc" != 0 ]; then alarm=1; echo "$TAG $p rc=$rc $(grep -E '^(VIOLATED|UNDECIDED|ANCHOR-LOST): ' $T/$p.out | sed -E 's/^([A-Z-]+): \[([^]]*)\].*/\1:\2/' | head -4 | paste -sd' ')"; fi
done
[ $alarm = 0 ] && echo "$TAG SILENT"
[ -n "${WTE_KEEP:-}" ] || { git -C /repo worktree remove --force $WT; rm -rf $T; }
exit 0
