#!/bin/bash
# usage: neutral_matrix_wt.sh [patch-id ...] — applies each behaviour-preserving patch of /verif/neutral to a scratch worktree (never
# /repo) and runs the checks of the properties whose anchor files share a directory with a touched file (Cxx-n* patches: also
# their own property). Every line other than SILENT / DOES-NOT-APPLY is a false alarm of the machinery.
cd /verif
IDS=${@:-$(ls neutral)}
one() {
  id=$1
  props=$(python3 - "$id" <<'PY'
import json,sys,re,os
id=sys.argv[1]
touched={os.path.dirname(l[6:].strip()) for l in open(f'/verif/neutral/{id}/patch.diff') if l.startswith('+++ b/')}
ps=set()
if re.match(r'C\d\d-',id): ps.add(id[:3])
for l in open('/verif/properties.jsonl'):
    p=json.loads(l)
    dirs={os.path.dirname(f) for f in p['anchors'].get('files',[])}
    if touched & dirs: ps.add(p['id'])
print(' '.join(sorted(ps)))
PY
)
  [ -z "$props" ] && { echo "$id NO-PROPS"; return; }
  WTE_PAR=3 ./wt_eval.sh neutral/$id/patch.diff nm-$id $props
}
export -f one
echo $IDS | tr ' ' '\n' | xargs -P ${PAR:-4} -I{} bash -c 'one {}'
