#!/bin/bash
# usage: seed_matrix_wt.sh [seed-id ...] — like seed_matrix.sh but never touches /repo: each seeded change is applied to a scratch
# worktree (wt_eval.sh) and checked by the check of its own property plus every property that was recorded as catching it
# (meta.json detected_by). Updates detected_by for those properties; prints one line per seed. PAR = seeds in parallel (default 4).
cd /verif
SEEDS=${@:-$(ls seeded | grep -E '^C[0-9]+-[a-z0-9]+$')}
one() {
  s=$1; d=/verif/seeded/$s
  props=$(python3 -c "
import json,sys
m=json.load(open('$d/meta.json')); ps={m['property']}|set((m.get('detected_by') or {}).keys()); print(' '.join(sorted(ps)))")
  out=$(WTE_PAR=3 ./wt_eval.sh $d/patch.diff sm-$s $props)
  python3 - "$d" "$out" $props <<'PY'
import json,sys,re
d,out=sys.argv[1],sys.argv[2]; props=sys.argv[3:]
m=json.load(open(d+'/meta.json'))
if 'DOES-NOT-APPLY' in out:
    m['detected_by']=None; m.setdefault('detect_note','patch no longer applies to the current tree')
else:
    det=dict(m.get('detected_by') or {})
    for p in props: det.pop(p,None)
    for line in out.splitlines():
        mm=re.match(r'\S+ (C\d+) rc=\d+ ?(.*)$',line)
        if mm:
            keys=[re.sub(r'^[A-Z-]+:','',k) for k in re.findall(r'(?:VIOLATED|UNDECIDED|ANCHOR-LOST):(?:[^ ]| (?!VIOLATED|UNDECIDED|ANCHOR-LOST))*',mm.group(2))]
            det[mm.group(1)]=keys or ['exit 1']
    m['detected_by']=det; m.pop('detect_note',None)
json.dump(m,open(d+'/meta.json','w'),indent=1)
print(d.split('/')[-1],'->',('does not apply' if m['detected_by'] is None else (', '.join(f"{k}:{len(v)}" for k,v in m['detected_by'].items()) or 'NOT DETECTED')))
PY
}
export -f one
echo $SEEDS | tr ' ' '\n' | xargs -P ${PAR:-4} -I{} bash -c 'one {}'
