#!/usr/bin/env python3
"""mutants_try.py <prop>  — runs only the hand-written mutants of mutants/<prop>.json (development helper)."""
import sys, json, os, shutil, concurrent.futures as cf
sys.path.insert(0, os.path.dirname(os.path.abspath(__file__)))
import thorough as T
prop = sys.argv[1]
vs = []
for i, e in enumerate(json.load(open(os.path.join(T.VERIF, "mutants", prop + ".json")))):
    vs.append(T.variant_from_edit(e.get("name", f"mutant {i+1}"), "mutant", e["file"], e["old"], e["new"]))
with cf.ThreadPoolExecutor(max_workers=6) as ex:
    res = list(ex.map(lambda v: T.run_variant(prop, v), vs))
for v in res:
    if v.get("dir"): shutil.rmtree(v["dir"], ignore_errors=True)
    print(v["status"], "|", v["name"], "|", (v.get("caught_by") or [v.get("note", "")])[0][:150])
