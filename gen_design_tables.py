#!/usr/bin/env python3
"""Refreshes the generated blocks of DESIGN.md (between <!-- BEGIN:x --> / <!-- END:x --> markers) and OBLIGATIONS.md
from known_findings.json, seeded/*/meta.json and evidence/*.json."""
import json, glob, re, os, subprocess
V='/verif'
def block(name, text, s):
    pat=re.compile(r'(<!-- BEGIN:%s -->\n).*?(<!-- END:%s -->)'%(name,name), re.S)
    if not pat.search(s): raise SystemExit('marker '+name+' missing')
    return pat.sub(lambda m: m.group(1)+text.rstrip()+'\n'+m.group(2), s)
k=json.load(open(V+'/known_findings.json'))
rows=["| property | fix commit in /repo | rule (obligation key) that reports it when reverted | what failed |","|---|---|---|---|"]
for f in k['fixed']:
    subj=subprocess.run(['git','-C','/repo','log','-1','--format=%s',f['commit']],capture_output=True,text=True).stdout.strip()
    rows.append(f"| {f['property']} | `{f['commit']}` {subj} | `{f.get('key','')}` | {f['what']} |")
fixes="\n".join(rows)
rows=["| property | obligation key | what fails |","|---|---|---|"]
for f in k['open']:
    rows.append(f"| {f['property']} | `{f['key']}` | {f['what']} |")
openf="\n".join(rows)
if k.get('audit_findings_outside_the_checks'):
    openf+="\n\nFindings of the audit round that no obligation expresses (documented, not repaired; demos and suggested patches in `findings/open/`):\n\n| property | where | what fails, and why it was not repaired |\n|---|---|---|\n"+"\n".join(f"| {f['property']} | `{f['where']}` | {f['what']} |" for f in k['audit_findings_outside_the_checks'])
rows=["| seed | property | change (made by an independent sub-agent that saw only the property text) | caught by |","|---|---|---|---|"]
n=0; caught=0
for m in sorted(glob.glob(V+'/seeded/C*/meta.json')):
    d=json.load(open(m)); n+=1
    det=d.get('detected_by')
    if det: caught+=1
    if det is None: c='('+d.get('detect_note','patch no longer applies to the current tree')+')'
    elif not det: c='**not detected** — '+d.get('why_not_detected','')
    else: c='; '.join(f"{p}: `{ks[0]}`"+(f" (+{len(ks)-1})" if len(ks)>1 else '') for p,ks in det.items())
    note=d.get('rule_history','')
    if d.get('blind'): note=('blind round: **'+d['blind']+'**'+('; '+note if note else ''))
    rows.append(f"| {d['id']} | {d['property']} | {d['what_changed']} | {c}{' — '+note if note else ''} |")
bl=[json.load(open(m)) for m in sorted(glob.glob(V+'/seeded/C*/meta.json'))]
bl=[d for d in bl if d.get('blind')]
def rnd(d): return 9 if d['id'][-1]=='n' else 8 if d['id'][-1]=='m' else 7 if d['id'][-1]=='k' else 6 if d['id'][-1] in 'ij' else (5 if d['id'][-1] in 'gh' else (4 if d['id'][-1] in 'ef' else 3))
def tally(k): 
    x=[d for d in bl if rnd(d)==k]
    return f"{sum(1 for d in x if d['blind']=='caught')} caught by a rule about the broken clause, {sum(1 for d in x if d['blind']=='incidental')} reported only incidentally, {sum(1 for d in x if d['blind']=='missed')} missed (of {len(x)})"
seeds=f"{caught} of {n} seeded changes are reported by at least one check on the current machinery. First contact (blind): round 3 — {tally(3)}; round 4 — {tally(4)}; round 5 — {tally(5)}; round 6 (property text only) — {tally(6)}; round 7 (told to avoid all earlier changes) — {tally(7)}; round 8 (same) — {tally(8)}; round 9 (same, 8 properties) — {tally(9)}.\n\n"+"\n".join(rows)
s=open(V+'/DESIGN.md').read()
s=block('fixes',fixes,s); s=block('open',openf,s); s=block('seeds',seeds,s)
# per-property obligation counts
rows=["| id | obligations | discharged | known findings | sites examined | variants killed (thorough self-test) |","|---|---|---|---|---|---|"]
ob=["# Obligations decided on the current tree\n\nGenerated from /verif/evidence/*.json by gen_design_tables.py. One line per obligation: status, key (`rule-id @ construct`), rule.\n"]
for f in sorted(glob.glob(V+'/evidence/C*.json')):
    e=json.load(open(f)); c=e['coverage']
    kn=sum(1 for o in c['all_obligations'] if o['status']=='known-finding')
    km=c.get('kill_matrix_counts',{})
    rows.append(f"| {e['property_id']} | {c['obligations']} | {c['discharged']} | {kn} | {c['evaluations']} | {km.get('killed','–')}{' (+%d stale)'%km['stale'] if km.get('stale') else ''}{' **%d survived**'%km['SURVIVED'] if km.get('SURVIVED') else ''} |")
    ob.append(f"\n## {e['property_id']}\n\n{c['explanation']}\n\nNot decided: "+'; '.join(c.get('not_decided') or ['–'])+"\n")
    for o in c['all_obligations']:
        ob.append(f"- {o['status']} `{o['key']}` — {o['rule']}")
s=block('counts',"\n".join(rows),s)
open(V+'/DESIGN.md','w').write(s)
open(V+'/OBLIGATIONS.md','w').write("\n".join(ob)+"\n")
print('ok')
