#!/usr/bin/env python3
"""thorough.py <property-id>

The thorough tier of one property check. Everything here is static analysis of /repo's current working tree:

 1. the property's rules at tier "thorough" (whole-program load where the property needs it) — this is the verdict;
 2. the same rules under every other build-tag set of the module that changes a table the rules read
    (today: jwx_es256k) — a violation there is a violation;
 3. a sensitivity self-test of the checker (never a verdict about nuts-node): one-edit VARIANTS of the current tree
    are analysed through go/packages overlays (nothing is written to /repo, one process per variant):
      - the reverse of every "fix:" commit recorded for this property in known_findings.json,
      - every seeded change in /verif/seeded whose meta.json names this property as a catcher (or as its property),
      - the hand-written one-edit mutants in /verif/mutants/<id>.json.
    A variant is "killed" when the check reports a violated/undecided/anchor-lost obligation on it. Variants whose
    edit no longer applies to the current tree are "stale"; variants that no longer type-check are "invalid".
    Survivors are printed and recorded, they do not change the exit code (they say something about the checker,
    not about the tree).

The kill matrix and the tag-set runs are merged into /verif/evidence/<id>.json (coverage.kill_matrix, coverage.tag_sets).
"""
import json, os, re, shutil, subprocess, sys, tempfile, glob, concurrent.futures as cf

VERIF = os.path.dirname(os.path.abspath(__file__))
REPO = os.environ.get("VERIF_REPO", "/repo")
BIN = os.path.join(VERIF, "bin", "verifcheck")
ENV = dict(os.environ, GOFLAGS="-mod=mod", GOPROXY="off", GOSUMDB="off", GOTOOLCHAIN="local")
ENV.pop("GOWORK", None)
OTHER_TAG_SETS = ["jwx_es256k"]


def run_checker(prop, tier, verifdir, extra=()):
    for _ in range(4):
        p = subprocess.run([BIN, "-prop", prop, "-tier", tier, "-repo", REPO, "-verif", verifdir, *extra],
                           capture_output=True, text=True, env=ENV)
        out = p.stdout + p.stderr
        if re.search(r"internal error: package .* without types", out):
            continue
        return p.returncode, out
    return p.returncode, out


def scratch_verif():
    d = tempfile.mkdtemp(prefix="verif-thorough-")
    shutil.copy(os.path.join(VERIF, "known_findings.json"), d)
    return d


def files_of_patch(text):
    return sorted(set(re.findall(r"^\+\+\+ b/(\S+)", text, re.M)) | set(re.findall(r"^--- a/(\S+)", text, re.M)))


def variant_from_patch(name, source, text, reverse=False):
    """Applies a unified diff to scratch copies of the touched files; returns overlay args or a status."""
    d = tempfile.mkdtemp(prefix="verif-variant-")
    files = [f for f in files_of_patch(text) if f.endswith(".go") and not f.endswith("_test.go")]
    if not files:
        return dict(name=name, source=source, status="stale", note="no non-test Go file in the patch", dir=d)
    for f in files:
        src = os.path.join(REPO, f)
        os.makedirs(os.path.dirname(os.path.join(d, f)), exist_ok=True)
        if os.path.exists(src):
            shutil.copy(src, os.path.join(d, f))
    # keep only the hunks of the files we copied (test files etc. are irrelevant to the analysis)
    p = subprocess.run(["patch", "-p1", "-s", "-f", "--no-backup-if-mismatch"] + (["-R"] if reverse else []) +
                       ["-d", d], input=filter_patch(text, files), capture_output=True, text=True)
    if p.returncode != 0:
        return dict(name=name, source=source, status="stale", note="edit no longer applies to the current tree", dir=d)
    ov = []
    for f in files:
        ov += ["-overlay", f"{f}={os.path.join(d, f)}"]
    return dict(name=name, source=source, overlay=ov, dir=d)


def filter_patch(text, files):
    out, keep = [], False
    for line in text.splitlines(keepends=True):
        if line.startswith("diff --git "):
            m = re.match(r"diff --git a/(\S+) b/(\S+)", line)
            keep = bool(m) and m.group(2) in files
        if keep:
            out.append(line)
    return "".join(out)


def variant_from_edit(name, source, rel, old, new):
    d = tempfile.mkdtemp(prefix="verif-variant-")
    try:
        s = open(os.path.join(REPO, rel)).read()
    except OSError:
        return dict(name=name, source=source, status="stale", note="file not found", dir=d)
    if s.count(old) != 1:
        return dict(name=name, source=source, status="stale", note=f"old fragment occurs {s.count(old)} times", dir=d)
    os.makedirs(os.path.dirname(os.path.join(d, rel)), exist_ok=True)
    open(os.path.join(d, rel), "w").write(s.replace(old, new))
    return dict(name=name, source=source, overlay=["-overlay", f"{rel}={os.path.join(d, rel)}"], dir=d)


def collect_variants(prop):
    vs = []
    known = json.load(open(os.path.join(VERIF, "known_findings.json")))
    for f in known.get("fixed", []):
        if f["property"] != prop:
            continue
        p = subprocess.run(["git", "-C", REPO, "show", "--format=", f["commit"]], capture_output=True, text=True)
        if p.returncode != 0:
            vs.append(dict(name="revert " + f["commit"], source="fix-revert", status="stale", note="commit not found"))
            continue
        vs.append(variant_from_patch("revert of fix " + f["commit"], "fix-revert", p.stdout, reverse=True))
    for m in sorted(glob.glob(os.path.join(VERIF, "seeded", "C*", "meta.json"))):
        meta = json.load(open(m))
        det = meta.get("detected_by") or {}
        if prop in det or (meta["property"] == prop and not det):
            text = open(os.path.join(os.path.dirname(m), "patch.diff")).read()
            vs.append(variant_from_patch("seeded " + meta["id"], "seeded", text))
    mf = os.path.join(VERIF, "mutants", prop + ".json")
    if os.path.exists(mf):
        for i, e in enumerate(json.load(open(mf))):
            vs.append(variant_from_edit(e.get("name", f"mutant {i+1}"), "mutant", e["file"], e["old"], e["new"]))
    return vs


def run_variant(prop, v):
    if "status" in v:
        return v
    for attempt in range(3):
        d = scratch_verif()
        rc, out = run_checker(prop, "quick", d, v["overlay"])
        shutil.rmtree(d, ignore_errors=True)
        if rc >= 0 and out.strip():
            break  # a checker process that was killed from outside (negative rc / no output) says nothing about the variant: retry
    keys = re.findall(r"^(?:VIOLATED|UNDECIDED|ANCHOR-LOST): \[(.*)\] ?\S*$", out, re.M)
    if rc == 0:
        v["status"] = "SURVIVED"
    elif keys == ["load"] or (not keys and rc != 1):
        v["status"] = "invalid"
        v["note"] = "variant does not type-check / checker error: " + (out.strip().splitlines() or ["no output (rc=%d)" % rc])[-1][:200]
    else:
        v["status"] = "killed"
        v["caught_by"] = keys[:4]
    return v


def main():
    prop = sys.argv[1]
    rc, out = run_checker(prop, "thorough", VERIF)
    sys.stdout.write(out)
    final = rc
    tag_runs = []
    for tags in OTHER_TAG_SETS:
        d = scratch_verif()
        trc, tout = run_checker(prop, "thorough", d, ["-tags", tags])
        tag_runs.append(dict(tags=tags, exit=trc, summary=tout.strip().splitlines()[-1] if tout.strip() else ""))
        if trc != 0:
            # a violation under another tag set is a violation: keep its replay files under /verif/evidence
            rdir = os.path.join(VERIF, "evidence", prop + ".replay")
            os.makedirs(rdir, exist_ok=True)
            for line in tout.splitlines():
                m = re.match(r"VIOLATION property=(\S+) replay=(\S+)", line)
                if m and os.path.exists(m.group(2)):
                    dst = os.path.join(rdir, f"tags-{tags}-{os.path.basename(m.group(2))}")
                    shutil.copy(m.group(2), dst)
                    print(f"VIOLATION property={prop} replay={dst}")
                elif not line.startswith("VIOLATION"):
                    print(f"[tags={tags}] {line}")
            final = final or 1
        shutil.rmtree(d, ignore_errors=True)
    variants = collect_variants(prop)
    with cf.ThreadPoolExecutor(max_workers=6) as ex:
        results = list(ex.map(lambda v: run_variant(prop, v), variants))
    for v in results:
        if v.get("dir"):
            shutil.rmtree(v["dir"], ignore_errors=True)
    matrix = [{k: v[k] for k in ("name", "source", "status", "caught_by", "note") if k in v} for v in results]
    counts = {}
    for v in matrix:
        counts[v["status"]] = counts.get(v["status"], 0) + 1
        if v["status"] == "SURVIVED":
            print(f"MUTANT-SURVIVED (checker self-test, not a verdict): property={prop} {v['name']}")
    print(f"{prop} thorough: tag sets {[t['tags'] + ':' + str(t['exit']) for t in tag_runs]}; variants {counts}")
    evp = os.path.join(VERIF, "evidence", prop + ".json")
    try:
        ev = json.load(open(evp))
        ev["coverage"]["tag_sets"] = [dict(tags="", exit=rc)] + tag_runs
        ev["coverage"]["kill_matrix"] = matrix
        ev["coverage"]["kill_matrix_counts"] = counts
        ev["coverage"]["kill_matrix_rule"] = "each variant is a one-edit version of the current tree analysed through an overlay; killed = the check reports a non-discharged obligation on it; stale = the edit no longer applies; invalid = the variant does not type-check; survivors do not affect the verdict"
        ev["coverage"]["evaluations"] = ev["coverage"].get("evaluations", 0) + len([v for v in matrix if v["status"] in ("killed", "SURVIVED")])
        if final != 0 and ev.get("violations", 0) == 0:
            ev["violations"] = 1
        json.dump(ev, open(evp, "w"), indent=1)
    except Exception as e:  # evidence must exist: the main run writes it
        print("cannot update evidence:", e)
        final = final or 2
    sys.exit(final)


if __name__ == "__main__":
    main()
