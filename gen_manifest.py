#!/usr/bin/env python3
"""Generates MANIFEST.json from the table below (kept next to the rule tables so they stay in sync)."""
import json, sys

CLAIMS = {
 # id: (technique, level text, level note)
 "C06": ("must-pass-through (dominance on SSA CFG with pass edges removed) + closed-world call-site ownership + constant-table comparison",
         "Static decision of the structural necessary conditions of DAG admission: every path to a successful parse / verification / graph write crosses the pass edge of each required check; step and verifier tables complete; storage writers owned. Exhaustive over the current source; necessary conditions, not the behavioural property itself.",
         "Trusts go/ssa's model of the program, jwx and go-stoabs semantics (leaves). Does not decide signature mathematics or concurrent histories."),
}
CLAIMS["C04"] = ("dataflow inventory of request attributes read by the auth guard (with positive-control fixture) + must-pass-through on the token middleware + bind/route constant tables",
  "Static decision that the authentication guard and the router inspect the same request attribute, that the next handler is reachable only through every token check (else 401), and that bind and route tables keep internal segments on the internal listener. Exhaustive over the current source; necessary structural conditions.",
  "Trusts go/ssa, echo's dispatch on URL.Path/RawPath and middleware ordering, jwx verification. Does not decide library request-line parsing.")
CLAIMS["C17"] = ("closed-world ownership of jwx verification primitives + must-pass-through (one-signature, allow-list, key source) per consumer + constant allow-list tables under both build-tag sets",
  "Static decision that signed tokens are verified only in vetted consumers, each requiring exactly one signature, an allow-listed asymmetric algorithm (or key-derived algorithm) and a key from the protocol's source. Exhaustive over the current source; necessary structural conditions.",
  "Trusts go/ssa and the jwx library's verification; OpenID-configuration metadata JWT and PKI denylist are listed owners outside the property's token list.")
CLAIMS["C02"] = ("must-pass-through on the two token flows and the code-minting handler (per-presentation loops), argument provenance, ownership of token/code stores, reserved-claim table vs response struct tags + sticky loop-carried flags (MONOTONE-FLAG) + flow-sensitive value identity (reaching stores)",
  "Static decision that access tokens and authorization codes are issued only after every listed presentation/PKCE/nonce check passed, from request/session-bound arguments, and that introspection is built from the stored token with credential-derived claims unable to override named fields. Exhaustive over the current source; necessary structural conditions.",
  "Trusts go/ssa; verifier and PEX semantics are C01/C12; single-use atomicity is C05.")
CLAIMS["C10"] = ("DETERM: map-iteration-order dataflow (append sinks must be sorted before escaping; folds/callbacks/first-match flagged) over the didstore package + total-order and sticky-deactivation argument checks",
  "Static decision of the determinism clause the property names: no Go map iteration order reaches an ordered result in the did:nuts store, the event order has a unique tie-break, the ordered list has one writer, deactivation is sticky. Exhaustive over the current source.",
  "Trusts go/ssa; the order-independence law of the event algebra over all arrival orders is not decided (runtime values).")
CLAIMS["C05"] = ("ATOMIC: check-then-act pair detection with lock-held analysis on single-use stores + ownership of plain reads + deferred-burn dominance + must-reach of the burning handler",
  "Static decision that single-use values are consumed only through the burn primitive, that a failed redemption burns the code, that nonce registrations keep the store's TTL, and that each check-then-act is atomic. The atomicity clause fails on today's tree at three sites, recorded as known findings; a new non-atomic pair is still reported.",
  "Trusts go/ssa; assumes the session backends give no cross-operation isolation (true for all three implementations).")
CLAIMS["C13"] = ("ownership of version creation/commit calls + dominance order of the two phases + must-pass-through in both transaction closures and the sweep + loop-continuation gate + compensation table agreement with ON DELETE CASCADE edges parsed from the SQL migrations + sticky loop-carried flags (MONOTONE-FLAG) in the sweep + clock-independence (EFFECT) of the pending test",
  "Static decision of the two-phase protocol: versions only inside the helper, change log in tx1, commit loop stops at the first failure, compensation iff a commit failed, sweep per transaction id and only for uncommitted, consecutive versions, and every phase-1 table that decides subject existence is removed by the compensation. Exhaustive over the current source.",
  "Trusts go/ssa, gorm transaction/association semantics and SQL cascade enforcement; crash instants and SQL isolation are not decided.")
CLAIMS["C19"] = ("PANICSITE: SSA inventory of ten panic-capable construct kinds (D1–D10, incl. zero values of failed comma-ok forms and nil-on-failure standard-library results) in the untrusted-input packages with dominating-guard recognition (access-path nil tests, comma-ok assertions, producer-type summaries) and a reviewed-safe table; FUEL checks on recursive resolvers and the IBLT decode loop; positive-control fixture",
  "Static decision that every unchecked assertion, optional-pointer dereference, discarded-error dereference, nil-checked-elsewhere field use, explicit panic and (nil,nil)-result dereference in 38 input-facing packages is guarded or reviewed, and that reference-following resolvers and the IBLT peel loop keep their fuel. Found and repaired 12 genuine panics. Index bounds, dependency panics and general loop termination are not decided.",
  "Trusts go/ssa and the reviewed-safe table (105 named constructs with reasons in checker/props/c19_reviewed.go).")
CLAIMS["C01"] = ("must-pass-through on the credential/presentation verifier and both signature algorithms (assumption-specialised on checkSignature/allowUntrusted/verifyVCs), refusal and dominance rules for the status-list verdict, argument provenance (issuer binding, resolve time, self-attested exception), issuer/wallet gates",
  "Static decision that a 'valid' verdict is reachable only through every conjunct of the property (validator, types, revocation, status list, trust, window, issuer resolution, signature bound to the claimed issuer; presenter==subject, VP signature, every embedded credential) and that own issuance passes the same validators. Exhaustive over the current source; necessary structural conditions.",
  "Trusts go/ssa; canonicalisation/JWT coverage and the issue→verify round trip are value-level and not decided.")
CLAIMS["C11"] = ("add-only inventories (no Delete on revocation models, setBit(true) only, upsert-all-columns), must-pass-through on network revocation registration and status-list verification, transaction-closure / row-lock / loaded-record ordering of every status list re-issue, locked index hand-out",
  "Static decision that revocations and set bits are never removed, that only issuer-signed revocations are stored, that a revoked bit fails verification from the named and verified list only, and that every re-issue happens in a transaction from freshly loaded revocations under the row lock. Exhaustive over the current source.",
  "Trusts go/ssa, gorm Preload/transaction semantics and SQL row locks; actual uniqueness under concurrency is not decided.")
CLAIMS["C09"] = ("ownership of did:nuts store writes + must-pass-through on the create/update handlers and the callback + provenance of the searched key list and controller list + validator-table completeness + inner validator gates (incl. kid derived from key material)",
  "Static decision that a network did:nuts document version is stored only after DID==thumbprint (creation) or a controller capabilityInvocation key match resolved as of the referenced transactions (update), through integrity/decoding/validator gates whose table is complete. Found and repaired the kid-in-JWK bypass. Exhaustive over the current source.",
  "Trusts go/ssa and go-did's W3C validator; relationship-embedded verification methods are outside the verification-method validator (observation).")
CLAIMS["C16"] = ("must-pass-through on server registration, the registration/retraction validators and the client updater + argument provenance (signer-bound lookups) + transaction-closure ordering of the store (increment/delete/insert, timestamp-before-rows, wipe with full-row Save) + assumption-specialised reachability of the search filter",
  "Static decision that the server lists only registrations that passed every listed check, that retractions are bound to the signer of an existing entry, that the store's timestamp protocol has the required ordering, and that the client marks entries validated only after verifying them itself and searches only validated, unexpired entries. Exhaustive over the current source.",
  "Trusts go/ssa, gorm semantics; replica convergence over interleavings is not decided.")
CLAIMS["C15"] = ("inventory of message-literal fields that carry payload bytes + must-pass-through on the payload query, list collector, payload store and TLS authenticator + ownership of Authenticated=true stores, payload readers/writers and the dummy authenticator + argument provenance",
  "Static decision that private payload bytes can reach an outgoing message only through authentication + decrypted-PAL membership of the verified node DID, never through lists; that received payloads are stored only after the hash comparison; and that a peer is marked authenticated only by the authenticators after certificate/host verification. Exhaustive over the current source.",
  "Trusts go/ssa, gRPC/TLS certificate validation and ECIES; generated protobuf code is out of the carrier inventory (it only copies wire bytes).")
CLAIMS["C14"] = ("must-reach (post-dominance restricted to success exits) of event saves in the admission closure + ownership of notify (after-commit closures only), Finished and job deletion + must-pass-through on completion + persistency option table of the subscriber registrations + retry-budget constant checks",
  "Static decision that every admitted transaction/payload event is saved inside the admission transaction, that delivery starts only after commit, that a job disappears only on recorded completion while unfinished ones are persisted with an incremented retry counter, that the persistent subscribers are registered with persistency and resumed at start while their budget (maxRetries) lasts. Exhaustive over the current source.",
  "Trusts go/ssa and go-stoabs commit/after-commit semantics; retry timing and crash instants are not decided.")
CLAIMS["C08"] = ("must-reach of the digest update after graph.add in the admission closure + must-pass-through in updateState/(*dag).add + shared write-transaction handle + OnRollback/loadState option and argument checks + ownership of tree mutators and bucket writers + lock-dominance on treeStore + same-transaction recompute/replace ordering of the repair + aliasing rule for tree.Data handed to Replace + root-only-at-the-head gate on whichever function takes the root",
  "Static decision that graph, digests, head and counters are written in one transaction, that a rollback or restart overwrites the in-memory state from disk, that the trees have a single writer discipline, and that the repair recomputes and replaces a page inside one write transaction only on a detected difference. Exhaustive over the current source.",
  "Trusts go/ssa and go-stoabs; numerical equality of digests with the stored set is not decided.")
CLAIMS["C18"] = ("must-pass-through on did:web Resolve/DIDToURL and the deactivation gates + EFFECT (transitive-callee package classification) for did:jwk/did:key purity and local-first resolution + constant/argument checks (https literal, exact id equality, chain order, chain continues only on ErrNotFound) + sibling agreement of the two 'deactivated' predicates + no package-level state in the did:jwk/did:key resolvers",
  "Static decision that did:web documents are fetched only over https from the host the DID encodes and accepted only with an identical id, that did:jwk/did:key resolution is effect-free and id-bound, that managed DIDs resolve locally first without network reachability, and that deactivated DIDs resolve only when allowed. Exhaustive over the current source.",
  "Trusts go/ssa, net/url parsing; the DID↔URL round-trip law and redirects are not decided.")
CLAIMS["C20"] = ("per-refusal GATE/REFUSE under the strict-flag value set (loads of strict-mode named fields/params/globals) + flag-wiring dependence check (every strict-mode slot that is read is assigned from the flag) + argument/constant checks (https-only strict URL parse, default true, JSON-LD negation, sticky secret-flag error) + ownership of raw HTTP clients",
  "Static decision that each documented strict-mode refusal exists, is controlled by the flag and its own option, that the flag actually reaches every component that consults it (two dead flags were found and repaired), that strict is the default, that outbound HTTP uses the strict client, and that moved keys / command-line secrets are refused regardless of the flag. Exhaustive over the current source.",
  "Trusts go/ssa; koanf precedence and completeness of the documented list are not decided.")
CLAIMS["C03"] = ("SURFACE (typed API inventory: no exported element outside the backends exposes a private-key type) + OWN (every interface conversion / field selection / serialiser call on a private-key value is in the owner table) + GATE on SignJWS's private-JWK refusal and on the key-name validator (pattern + dot-segment refusal, wrapper methods validate before delegating, all configured backends wrapped, backends never percent-decode names, UUID names for new keys) + ORDER (audit.Log dominates each key operation)",
  "Static decision of the structural conditions that keep private key material inside the key store and key names inside the key namespace. Exhaustive over the current source.",
  "Trusts go/ssa and go/types; that signatures verify with the published key and the run-time contents of logs/SQL rows are not decided.")
CLAIMS["C07"] = ("must-pass-through (GATE) on the v2 handlers and conversation checks + must-reach (post-dominance) of the fallback requests + dispatch TABLE (message types = switch cases; bound handler consumes the case's type) + argument identity (responses echo the request's conversation id, requests send the registered message) + OWN (add-only shelves, single admission path) + all-paths store check on the gossip queue; the convergence/liveness statement itself is NOT decided + sticky loop-carried flags (MONOTONE-FLAG) over the transport packages",
  "Static decision of C07's safety clauses (stale/unsolicited responses never touch state, admission only via State.Add, nothing deleted, payloads hash-checked) and of the structural necessary conditions for progress (every handler either is in sync or sends a follow-up, fallbacks exist, conversation ids line up, expired conversations do not block, advertised XOR/clock always refreshed). Exhaustive over the current source; liveness over schedules is declared not decided.",
  "Trusts go/ssa; convergence in finitely many rounds, IBLT capacity and timer behaviour are not decided.")
CLAIMS["C12"] = ("must-pass-through (GATE) on the verifier (Validate/Resolve/resolveCredential) and wallet (matchConstraints … matchFilter, matchBasic, Build, submission-requirement rules) + sibling-arm agreement in matchFilter's type switch + index-pairing ORDER rule (k-th mapping ↔ k-th credential, same candidate) + argument identity (Validate returns the re-matched credentials) + whole-content equality; the wallet/verifier agreement relation itself is NOT decided",
  "Static decision of the structural necessary conditions of Presentation Exchange agreement on both sides; two genuine defects found by these rules were repaired (array values ignored filter.type; duplicate descriptor mappings accepted). Exhaustive over the current source.",
  "Trusts go/ssa; Match/Validate agreement over generated definitions, JSONPath and regex semantics are not decided. Assumes Build is called with >= 1 wallet.")
PENDING = {}

def main():
    ids = ["C%02d" % i for i in range(1, 21)]
    checks = []
    na = []
    for pid in ids:
        if pid in CLAIMS:
            tech, text, note = CLAIMS[pid]
            checks.append({
                "property_id": pid,
                "quick_cmd": "./check %s quick" % pid,
                "thorough_cmd": "./check %s thorough" % pid,
                "evidence_file": "/verif/evidence/%s.json" % pid,
                "replay_cmd_template": "./check %s quick   # replay file {path} names the obligation (rule @ construct) that failed" % pid,
                "engine": "verifcheck",
                "level_claimed": {"category": "other", "text": text, "design_ref": "DESIGN.md §4.%s" % pid},
                "level_note": note,
                "technique": "static analysis: " + tech,
            })
        else:
            na.append({"property_id": pid, "reason": PENDING.get(pid, "static check for this property is not built yet in this revision (see DESIGN.md §4 for the planned rules); not claimed")})
    m = {
        "version": 1,
        "setup_cmd": "cd /verif/checker && GOFLAGS=-mod=mod GOPROXY=off GOSUMDB=off GOTOOLCHAIN=local go build -o ../bin/verifcheck ./cmd/verifcheck",
        "hooks": {"guard": "verif", "enable": "none needed: static analysis reads the source; no instrumentation is compiled into nuts-node",
                  "baseline_off_cmd": "cd /repo && go test -vet=off -count=1 -timeout 25m ./...",
                  "source_commits": [], "add_only": True},
        "engines": [{"name": "verifcheck", "path": "/verif/checker", "serves_properties": sorted(CLAIMS.keys()),
                     "kind_free_text": "repository-specific static analyser over go/packages + go/ssa (x/tools v0.29.0): GATE (must-pass-through), REFUSE, OWN (closed-world site ownership), ORDER, TABLE, ATOMIC, DETERM, PANICSITE engines with per-property rule-instance tables"}],
        "checks": checks,
        "not_applicable": na,
        "notes": "All claims are level 'other': exhaustive static decision of named structural necessary conditions on /repo's current working tree; clauses that quantify over runtime values are listed as not decided in each evidence file and in DESIGN.md. known_findings.json lists genuine defects that are recorded rather than repaired.",
    }
    json.dump(m, open("/verif/MANIFEST.json", "w"), indent=1)
    print("claimed", len(checks), "not_applicable", len(na))

main()
