#!/bin/bash
# usage: mut.sh <prop> <rel/file.go> <python-regex-old> <new>   — analyse a one-edit variant through an overlay (nothing is written to /repo)
set -u
PROP=$1; FILE=$2; OLD=$3; NEW=$4
TMP=$(mktemp /tmp/mutXXXXXX.go)
python3 - "$FILE" "$OLD" "$NEW" "$TMP" <<'PY'
import sys,re
f,old,new,tmp=sys.argv[1:5]
s=open('/repo/'+f).read()
n=s.count(old)
if n!=1:
    print("MUT: old fragment occurs",n,"times"); sys.exit(3)
open(tmp,'w').write(s.replace(old,new))
PY
[ $? -eq 0 ] || { rm -f $TMP; exit 3; }
VERIF_DIR=$(mktemp -d /tmp/mutevXXXX)
cp /verif/known_findings.json $VERIF_DIR/ 2>/dev/null
/verif/bin/verifcheck -prop $PROP -repo /repo -verif $VERIF_DIR -overlay "$FILE=$TMP" | grep -v "^VIOLATION\|^    GATE\|^    OWN" | cut -c1-400
rc=${PIPESTATUS[0]}
rm -rf $TMP $VERIF_DIR
echo "exit=$rc"
