#!/usr/bin/env python3
"""Imports the verified round-6 seeded changes from /tmp/seeds6 into /verif/seeded/<id>/ (patch.diff, demo, meta.json).
Round 6 agents saw only the property text and a scratch worktree; what/needs are taken from the agent's README."""
import json, os, shutil, glob, re, sys
BLIND = {
 # id: (first-contact result, what was added)
 "C10-j": ("missed", "added C10.deactivated.flag-of-the-transactions-own-document (ReachV: the value the variable holds at that point)"),
 "C16-j": ("missed", "added C16.client.timestamp-follows-the-answer (every path to the Save assigns the parameter)"),
 "C02-i": ("missed", "added C02.s2s.nonce-keyed-by-the-nonce-alone.get/.put"),
 "C04-i": ("missed", "added C04.binds.overlap.wildcard-alone-suffices (bare disjuncts of the result, closures expanded)"),
 "C12-j": ("missed", "added C12.rules.bounds-count-matched-members"),
 "C13-j": ("missed", "added C13.sweep.nuts-committed-means-head-of-store"),
 "C09-j": ("missed", "added C09.create.did-as-spelled-is-thumbprint (the compared operand is the field itself)"),
 "C08-i": ("missed", "added C08.repair.replaces-with-the-unmodified-recomputed-root"),
 "C19-i": ("missed", "added PANICSITE detector D10 (nil-on-failure standard-library results) with fixture control"),
 "C19-j": ("missed", "added PANICSITE detector D9 (zero value of a failed comma-ok written to / dereferenced) with fixture control"),
 "C09-i": ("incidental", "reported by C10.sticky-deactivation only; the same obligation now also under C09.deactivated-controller.flag-is-sticky"),
 "C11-j": ("incidental", "reported by C01.verify.not-revoked only; added C11.verify.revoked-whatever-the-validation-time"),
 "C03-i": ("incidental", "reported by C19 D1 on the sync.Map Load only; added C03.keyref.read-from-the-table-on-every-use and C03.keyref.no-process-local-copy"),
 "C07-i": ("incidental", "reported by C08.clock.* only (repeats C07-d); the clock rules are now also C07.progress.clock.*"),
 "C07-j": ("incidental", "reported by C15.list.public-only only; added C07.progress.private-transaction-served-without-its-payload"),
}
BLIND.update({
 "C01-k": ("missed", "added C01.ld.proof-window.expired-is-refused (ValidAt answers true only via 'no expiry' or 'not yet')"),
 "C02-k": ("missed", "added C02.inner.nonce.all-present-flag-is-sticky (new form: loop-carried boolean flags are monotone)"),
 "C03-k": ("missed", "added C03.dpop.jwk-header-always-set-from-the-signing-key"),
 "C04-k": ("missed", "added C04.keys.rsa-size-is-the-modulus-bit-length"),
 "C06-k": ("missed", "added C06.parse.kid-is-the-header-value"),
 "C07-k": ("missed", "added C07.progress.fallback-one-page-down"),
 "C08-k": ("missed", "added C08.digest.root-only-at-or-beyond-the-head.XOR/.IBLT"),
 "C10-k": ("missed", "added C10.count.document-counted-once-at-version-zero"),
 "C14-k": ("missed", "added C14.retry.no-error-class-ends-the-retries"),
 "C15-k": ("missed", "added C15.pal.contains-only-by-did-equality"),
 "C18-k": ("missed", "added C18.deactivated.one-definition (SIBLING: store and resolver predicates test the same members)"),
})
BLIND.update({
 "C03-m": ("missed", "added C03.memory-signer.signs-only-for-its-own-kid.jwt/.jws"),
 "C06-m": ("missed", "added C06.parse.every-prev-entry-is-kept (EACH-ITERATION)"),
 "C08-m": ("missed", "added C08.tree.load-forgets-tracked-updates"),
 "C10-m": ("missed", "added C10.add.every-delivery-is-applied"),
 "C11-m": ("missed", "added C11.status.index-bound-is-the-lists-own"),
 "C12-m": ("missed", "added C12.rules.one-slot-per-nested-requirement"),
 "C13-m": ("missed", "added C13.pending.age-does-not-unlock"),
 "C15-m": ("missed", "added C15.tls-offload.exactly-one-certificate-header"),
 "C16-m": ("missed", "added C16.server.get-returns-the-log-unfiltered"),
 "C18-m": ("missed", "added C18.pure.no-state-between-resolves.* (no package-level state in the did:jwk / did:key resolvers)"),
 "C07-m": ("incidental", "reported by C06.add.recheck-present only (repeats C06-a); added C07.safety.duplicate-delivery-is-not-summarised-twice"),
 "C17-m": ("incidental", "reported by C06.step.kid-xor-jwk.both only; the obligation is now also C17.dag.kid-xor-jwk"),
})
BLIND.update({
 "C07-n": ("missed", "added C07.progress.list-query-answered-for-every-requested-ref"),
 "C08-n": ("missed", "added C08.tree.replace-marks-the-leaf-dirty"),
 "C10-n": ("missed", "added C10.resolve.metadata-used-as-given"),
 "C18-n": ("missed", "added C18.migrate.history-cut-at-deactivation"),
})
n=0
SRC=sys.argv[1] if len(sys.argv)>1 else '/tmp/seeds6'
RND='round 9' if 'seeds9' in SRC else 'round 8' if 'seeds8' in SRC else ('round 7' if 'seeds7' in SRC else 'round 6')
for src in sorted(glob.glob(SRC+'/C??-[ijkmn]')):
    sid=os.path.basename(src)
    if not os.path.exists(src+'/patch.diff') or not os.path.exists(src+'/verify.txt'):
        print('skip',sid); continue
    ver=open(src+'/verify.txt').read()
    if 'FAIL' not in ver.split('demo with patch')[1].split('demo without patch')[0] or 'ok' not in ver.split('demo without patch')[1]:
        print('NOT VERIFIED',sid); continue
    readme=open(src+'/README.md').read()
    def line(k):
        m=re.search(r'^\s*[-*]?\s*\**'+k+r':\**\s*(.*)$',readme,re.M)
        return re.sub(r'[`*]','',m.group(1)).strip() if m else ''
    dst='/verif/seeded/'+sid
    os.makedirs(dst, exist_ok=True)
    if not os.path.exists(dst+'/patch.diff'):
        shutil.copy(src+'/patch.diff', dst+'/patch.diff')
    demos=glob.glob(src+'/*_test.go')
    for d in demos: shutil.copy(d, dst+'/'+os.path.basename(d))
    shutil.copy(src+'/README.md', dst+'/README.agent.md')
    dest=ver.split('dest=')[1].split()[0]
    meta={"id":sid,"property":sid.split('-')[0],"what_changed":line('what'),"needs_to_manifest":line('needs'),"clause":line('clause'),
          "demo_files":[os.path.basename(d) for d in demos],"demo_goes_in":dest,
          "verified":{"how":"verify_seed.sh in a scratch git worktree of /repo HEAD (removed afterwards): git apply; go build ./...; existing tests of touched packages; demo with patch (must fail); demo without patch (must pass)","log":ver.strip().splitlines()},
          "source":("independent sub-agent given the property text, its own scratch worktree and the one-line descriptions of all earlier seeded changes of that property (to go elsewhere) ("+RND+")" if RND!="round 6" else "independent sub-agent given only the property text and its own scratch worktree (round 6)")}
    old={}
    if os.path.exists(dst+'/meta.json'): old=json.load(open(dst+'/meta.json'))
    for k in ('detected_by',):
        if k in old: meta[k]=old[k]
    b=BLIND.get(sid,("caught","caught on first contact"))
    meta['blind'],meta['rule_history']=b
    fb=src+'.blind'
    if os.path.exists(fb): meta['blind_first_contact_output']=open(fb).read().strip()
    json.dump(meta,open(dst+'/meta.json','w'),indent=1); n+=1
print('imported',n)
